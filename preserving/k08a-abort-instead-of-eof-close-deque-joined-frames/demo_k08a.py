#!/usr/bin/env python
"""
demo_k08a.py - property C08 under faults and interleavings, with REAL objects.

Real asyncio selector event loop, real loopback TCP sockets, the real
HomeKitConnection / InsecureHomeKitProtocol / SecureHomeKitProtocol classes.
The accessory is a scripted asyncio stream server on 127.0.0.1 that the
scenario drives step by step (it answers only when told to, in as many pieces
as told to, and can FIN or RST the connection).

The 30 s request timeout is reached by warping the clock of the real loop
(loop.time is shifted forward); everything else runs in real time.

Only property-level facts are asserted (who got which response, which
exception type, that the connection was abandoned, that failures are prompt),
so the script passes on the unmodified code and with patch.diff applied.  The
transport calls that were observed are printed for information only - they are
the mechanical difference between the two versions.

Run:   PYTHONPATH=/tmp/wt/k08a /venv/bin/python demo_k08a.py
  or   PYTHONPATH=/tmp/wt/k08a /venv/bin/python -m pytest -q -p no:cacheprovider demo_k08a.py
"""

from __future__ import annotations

import asyncio
import json
import socket
import struct
import sys
import time
from itertools import groupby

from aiohomekit.controller.ip.connection import (
    HomeKitConnection,
    SecureHomeKitProtocol,
)
from aiohomekit.crypto.chacha20poly1305 import (
    PACK_NONCE,
    ChaCha20Poly1305Decryptor,
    ChaCha20Poly1305Encryptor,
)
from aiohomekit.exceptions import AccessoryDisconnectedError

PROMPT = 3.0  # seconds of real time that still count as "promptly"


# --------------------------------------------------------------------------
# helpers
# --------------------------------------------------------------------------
def http(body: dict, code: int = 200) -> bytes:
    raw = json.dumps(body).encode()
    return (
        f"HTTP/1.1 {code} OK\r\nContent-Type: application/hap+json\r\nContent-Length: {len(raw)}\r\n\r\n"
    ).encode() + raw


def event(body: dict) -> bytes:
    raw = json.dumps(body).encode()
    return (
        f"EVENT/1.0 200 OK\r\nContent-Type: application/hap+json\r\nContent-Length: {len(raw)}\r\n\r\n"
    ).encode() + raw


def ev(n: int) -> dict:
    return {"characteristics": [{"aid": 1, "iid": 9, "value": n}]}


def split(data: bytes, pieces: int) -> list[bytes]:
    step = max(1, len(data) // pieces)
    out = [data[i : i + step] for i in range(0, len(data), step)]
    assert b"".join(out) == data
    return out


async def until(pred, seconds: float = 5.0, what: str = "condition") -> None:
    deadline = time.monotonic() + seconds
    while not pred():
        if time.monotonic() > deadline:
            raise AssertionError(f"timed out waiting for {what}")
        await asyncio.sleep(0.005)


async def spin(n: int = 30) -> None:
    for _ in range(n):
        await asyncio.sleep(0)


async def outcome(task: asyncio.Task, seconds: float = PROMPT):
    """Result or exception of a task; fails if it hangs (real time)."""
    start = time.monotonic()
    while not task.done():
        if time.monotonic() - start > seconds:
            raise AssertionError(f"request still hanging after {seconds}s: {task!r}")
        await asyncio.sleep(0.005)
    if task.cancelled():
        return asyncio.CancelledError()
    return task.exception() or task.result()


def body_of(resp) -> dict:
    return json.loads(bytes(resp.body))


class Warp:
    """Shift the clock of the real event loop forward."""

    def __init__(self) -> None:
        self.loop = asyncio.get_running_loop()
        self.real = self.loop.time
        self.offset = 0.0
        self.loop.time = lambda: self.real() + self.offset  # type: ignore[method-assign]

    def advance(self, seconds: float) -> None:
        self.offset += seconds

    def restore(self) -> None:
        """Keep the offset (the clock must never run backwards); nothing to undo."""


class Owner:
    """Stands in for IpPairing: the event listener of the connection."""

    name = "demo"
    description = None

    def __init__(self) -> None:
        self.events: list[dict] = []
        self.made: list[bool] = []

    async def connection_made(self, secure: bool) -> None:
        self.made.append(secure)

    def event_received(self, parsed: dict) -> None:
        self.events.append(parsed)


class PeerConn:
    def __init__(self, reader: asyncio.StreamReader, writer: asyncio.StreamWriter, idx: int) -> None:
        self.reader = reader
        self.writer = writer
        self.idx = idx
        self.buf = b""
        sock = writer.get_extra_info("socket")
        sock.setsockopt(socket.IPPROTO_TCP, socket.TCP_NODELAY, 1)
        self.sock = sock

    async def _more(self) -> None:
        chunk = await self.reader.read(65536)
        if not chunk:
            raise EOFError("client closed")
        self.buf += chunk

    async def request(self) -> str:
        """Read one body-less request, return its target."""
        while b"\r\n\r\n" not in self.buf:
            await self._more()
        head, _, self.buf = self.buf.partition(b"\r\n\r\n")
        _method, target, _ver = head.split(b"\r\n")[0].decode().split(" ")
        return target

    async def send(self, data: bytes, pieces: int = 1, gap: float = 0.004) -> None:
        for piece in split(data, pieces):
            self.writer.write(piece)
            await self.writer.drain()
            if pieces > 1:
                await asyncio.sleep(gap)

    def send_ignoring_errors(self, data: bytes) -> None:
        try:
            self.writer.write(data)
        except Exception:  # noqa: BLE001
            pass

    async def client_went_away(self, seconds: float = PROMPT) -> float:
        """Wait until the client's FIN/RST is seen; return how long it took."""
        start = time.monotonic()

        async def drain() -> None:
            try:
                while await self.reader.read(65536):
                    pass
            except (ConnectionError, OSError):
                pass

        task = asyncio.ensure_future(drain())
        while not task.done():
            if time.monotonic() - start > seconds:
                task.cancel()
                raise AssertionError("client did not abandon the connection")
            await asyncio.sleep(0.005)
        return time.monotonic() - start

    def fin(self) -> None:
        self.writer.close()

    def rst(self) -> None:
        self.sock.setsockopt(socket.SOL_SOCKET, socket.SO_LINGER, struct.pack("ii", 1, 0))
        self.writer.transport.abort()


class Peer:
    """The scripted accessory."""

    def __init__(self) -> None:
        self.conns: list[PeerConn] = []
        self.queue: asyncio.Queue[PeerConn] = asyncio.Queue()

    async def start(self) -> None:
        self.server = await asyncio.start_server(self._on_conn, "127.0.0.1", 0)
        self.port = self.server.sockets[0].getsockname()[1]

    async def _on_conn(self, reader, writer) -> None:
        conn = PeerConn(reader, writer, len(self.conns))
        self.conns.append(conn)
        self.queue.put_nowait(conn)

    async def accept(self) -> PeerConn:
        start = time.monotonic()
        while self.queue.empty():
            if time.monotonic() - start > 5:
                raise AssertionError("client did not connect")
            await asyncio.sleep(0.005)
        return self.queue.get_nowait()

    async def stop(self) -> None:
        self.server.close()
        for conn in self.conns:
            try:
                conn.writer.transport.abort()
            except Exception:  # noqa: BLE001
                pass
        await self.server.wait_closed()


TRACE: dict[str, list[str]] = {}


def spy(scenario: str, transport: asyncio.Transport) -> None:
    """Record (information only) which transport methods the library calls."""
    log = TRACE.setdefault(scenario, [])

    def wrap(name: str):
        orig = getattr(transport, name)

        def inner(*args):
            if name == "writelines":
                log.append(f"writelines({len(list(args[0]))} buffers)")
            elif name == "write":
                log.append("write(1 buffer)")
            else:
                log.append(f"{name}()")
            return orig(*args)

        setattr(transport, name, inner)

    for name in ("write", "writelines", "write_eof", "close", "abort"):
        wrap(name)


class Rig:
    def __init__(self, name: str, concurrency: int = 1) -> None:
        self.name = name
        self.concurrency = concurrency

    async def __aenter__(self) -> Rig:
        self.peer = Peer()
        await self.peer.start()
        self.owner = Owner()
        self.conn = HomeKitConnection(self.owner, ["127.0.0.1"], self.peer.port, self.concurrency)
        await self.conn.ensure_connection()
        assert self.conn.is_connected
        spy(self.name, self.conn.transport)
        self.pc = await self.peer.accept()
        return self

    async def reconnected(self) -> PeerConn:
        """Wait for the automatic reconnect after an abandoned connection."""
        old = self.pc
        pc = await self.peer.accept()
        assert pc is not old
        await until(lambda: self.conn.is_connected, what="reconnect")
        spy(self.name, self.conn.transport)
        self.pc = pc
        return pc

    async def __aexit__(self, *exc) -> None:
        await self.conn.close()
        await self.peer.stop()
        await spin()

    def get(self, target: str) -> asyncio.Task:
        return asyncio.ensure_future(self.conn.get(target))


async def fresh_request_gets_own_response(rig: Rig, target: str = "/fresh") -> None:
    """After an abandonment: a later request is served on a NEW connection, by its own response."""
    old = rig.pc
    pc = await rig.reconnected()
    task = rig.get(target)
    assert await pc.request() == target
    await pc.send(http({"for": target}), pieces=3)
    res = await outcome(task)
    assert not isinstance(res, BaseException), res
    assert body_of(res) == {"for": target}, body_of(res)
    assert pc is not old and pc.idx == old.idx + 1


# --------------------------------------------------------------------------
# scenarios
# --------------------------------------------------------------------------
async def s1_pipelined_own_responses_and_events() -> None:
    """3 concurrent callers pipelined on one connection; events interleaved
    whole, coalesced with responses in one segment, and in pieces."""
    async with Rig("s1", concurrency=3) as rig:
        tasks = {t: rig.get(t) for t in ("/a", "/b", "/c")}
        seen = [await rig.pc.request() for _ in range(3)]
        assert seen == ["/a", "/b", "/c"], seen
        pc = rig.pc
        await pc.send(event(ev(1)))  # event before any response
        await pc.send(http({"for": "/a"}), pieces=9)  # response in 9 pieces
        await pc.send(event(ev(2)) + http({"for": "/b"}) + event(ev(3)))  # one segment
        head, _, tail = http({"for": "/c", "pad": "x" * 300}).partition(b"\r\n\r\n")
        await pc.send(head + b"\r\n\r\n")  # header, pause, body in pieces
        await asyncio.sleep(0.01)
        await pc.send(tail, pieces=4)
        await pc.send(event(ev(4)), pieces=7)  # event in pieces
        for target, task in tasks.items():
            res = await outcome(task)
            assert not isinstance(res, BaseException), (target, res)
            assert body_of(res)["for"] == target, (target, body_of(res))
            assert res.version.startswith("HTTP"), "an EVENT was consumed as a response"
        await until(lambda: len(rig.owner.events) == 4, what="4 events")
        assert rig.owner.events == [ev(1), ev(2), ev(3), ev(4)], rig.owner.events
        assert len(rig.peer.conns) == 1


async def s2_serialised_callers() -> None:
    """Default concurrency limit 1: concurrent callers are serialised; each gets its own answer."""
    async with Rig("s2") as rig:
        targets = [f"/r{i}" for i in range(5)]
        tasks = {t: rig.get(t) for t in targets}
        for i in range(5):
            target = await rig.pc.request()
            await asyncio.sleep(0.01)
            assert rig.pc.buf == b"" and not rig.pc.reader._buffer, "second request sent before the first was answered"
            await rig.pc.send(event(ev(i)) + http({"for": target}), pieces=1 + i * 3)
        for target, task in tasks.items():
            res = await outcome(task)
            assert body_of(res) == {"for": target}
        assert rig.owner.events == [ev(i) for i in range(5)]
        assert len(rig.peer.conns) == 1


async def s3_cancel_with_late_response(race: bool) -> None:
    """Caller A is cancelled while A and B are outstanding.  The response to A is
    late (race=False: after the cancel; race=True: written just before it)."""
    async with Rig(f"s3-race={race}", concurrency=2) as rig:
        a, b = rig.get("/a"), rig.get("/b")
        assert [await rig.pc.request() for _ in range(2)] == ["/a", "/b"]
        # a caller that retries the moment A is finished: must be refused, the
        # abandoned connection may not carry another request
        early: list[asyncio.Task] = []
        a.add_done_callback(lambda _t: early.append(rig.get("/early")))
        if race:
            # already in the client's kernel buffer when the cancel happens
            rig.pc.writer.write(http({"for": "/a"}))
        a.cancel()
        start = time.monotonic()
        res_a = await outcome(a)
        res_b = await outcome(b)
        took = time.monotonic() - start
        assert isinstance(res_a, asyncio.CancelledError), res_a
        assert isinstance(res_b, AccessoryDisconnectedError), res_b  # never A's answer
        assert isinstance(await outcome(early[0]), AccessoryDisconnectedError)
        gone = await rig.pc.client_went_away()
        rig.pc.send_ignoring_errors(http({"for": "/a"}) + http({"for": "/b"}))  # stale
        assert took < PROMPT and gone < PROMPT
        await fresh_request_gets_own_response(rig)


async def s4_timeout() -> None:
    """30 s timeout (warped clock).  A answered at 29.9 s succeeds and its timer
    never harms the connection; then C times out while D (younger) is outstanding."""
    async with Rig("s4", concurrency=2) as rig:
        warp = Warp()
        try:
            a = rig.get("/a")
            assert await rig.pc.request() == "/a"
            warp.advance(29.9)
            await spin()
            await asyncio.sleep(0.02)
            assert not a.done(), "timed out before 30 s"
            await rig.pc.send(http({"for": "/a"}), pieces=2)
            assert body_of(await outcome(a)) == {"for": "/a"}
            warp.advance(5)  # A's 30 s mark passes: nothing may happen
            await spin()
            await asyncio.sleep(0.02)
            b = rig.get("/b")
            assert await rig.pc.request() == "/b"
            await rig.pc.send(http({"for": "/b"}))
            assert body_of(await outcome(b)) == {"for": "/b"}
            assert len(rig.peer.conns) == 1 and rig.conn.is_connected

            c = rig.get("/c")
            assert await rig.pc.request() == "/c"
            warp.advance(12)
            d = rig.get("/d")
            assert await rig.pc.request() == "/d"
            warp.advance(17.5)  # c: 29.5 s, d: 17.5 s
            await spin()
            await asyncio.sleep(0.02)
            assert not c.done() and not d.done()
            warp.advance(1.0)  # c: 30.5 s
            start = time.monotonic()
            res_c = await outcome(c)
            res_d = await outcome(d)
            took = time.monotonic() - start
            assert isinstance(res_c, AccessoryDisconnectedError), repr(res_c)
            assert isinstance(res_d, AccessoryDisconnectedError), repr(res_d)
            gone = await rig.pc.client_went_away()
            rig.pc.send_ignoring_errors(http({"for": "/c"}) + http({"for": "/d"}))  # stale
            assert took < PROMPT and gone < PROMPT
            await fresh_request_gets_own_response(rig)
        finally:
            warp.restore()


async def s5_peer_closes(kind: str) -> None:
    """Peer answers the first of three outstanding requests half way, then FIN / RST."""
    async with Rig(f"s5-{kind}", concurrency=3) as rig:
        tasks = [rig.get(t) for t in ("/a", "/b", "/c")]
        assert [await rig.pc.request() for _ in range(3)] == ["/a", "/b", "/c"]
        full = http({"for": "/a", "pad": "y" * 200})
        await rig.pc.send(full[: len(full) - 50])
        await asyncio.sleep(0.01)
        start = time.monotonic()
        rig.pc.fin() if kind == "fin" else rig.pc.rst()
        for task in tasks:
            res = await outcome(task)
            assert isinstance(res, AccessoryDisconnectedError), repr(res)
        assert time.monotonic() - start < PROMPT
        # the remaining 50 bytes of the half response must never surface
        await fresh_request_gets_own_response(rig)


async def s6_unsolicited_response(with_request: bool) -> None:
    """Peer sends a response nobody asked for (alone, or glued behind a real one)."""
    loop = asyncio.get_running_loop()
    reported: list[dict] = []
    loop.set_exception_handler(lambda _loop, ctx: reported.append(ctx))
    try:
        async with Rig(f"s6-with_request={with_request}") as rig:
            if with_request:
                a = rig.get("/a")
                assert await rig.pc.request() == "/a"
                await rig.pc.send(http({"for": "/a"}) + http({"for": "nobody"}))
                assert body_of(await outcome(a)) == {"for": "/a"}
            else:
                await rig.pc.send(http({"for": "nobody"}), pieces=3)
            assert await rig.pc.client_went_away() < PROMPT
            await fresh_request_gets_own_response(rig)
    finally:
        loop.set_exception_handler(None)


async def s7_refusals() -> None:
    """No request is accepted on a closing transport or a closed connection."""
    async with Rig("s7") as rig:
        proto = rig.conn.protocol
        rig.conn.transport.close()
        try:
            await proto.send_bytes(b"GET /x HTTP/1.1\r\n\r\n")
        except AccessoryDisconnectedError:
            pass
        else:
            raise AssertionError("request accepted on closing transport")
        await rig.reconnected()
        await rig.conn.close()
        try:
            await rig.conn.get("/y")
        except AccessoryDisconnectedError:
            pass
        else:
            raise AssertionError("request accepted on closed connection")


async def s8_secure_session() -> None:
    """Encrypted session: multi-block request is received intact and in order,
    block-split responses and events are attributed correctly, peer close fails
    the outstanding request."""
    c2a, a2c = bytes(range(32)), bytes(range(32, 64))
    async with Rig("s8") as rig:
        proto = SecureHomeKitProtocol(rig.conn, a2c, c2a)
        rig.conn.protocol = proto
        rig.conn.transport.set_protocol(proto)
        proto.connection_made(rig.conn.transport)

        dec, enc = ChaCha20Poly1305Decryptor(c2a), ChaCha20Poly1305Encryptor(a2c)
        counters = {"in": 0, "out": 0}
        pc = rig.pc

        async def read_plain(n_bytes: int) -> bytes:
            plain = b""
            while len(plain) < n_bytes:
                while len(pc.buf) < 2:
                    await pc._more()
                (length,) = struct.unpack("<H", pc.buf[:2])
                while len(pc.buf) < 2 + length + 16:
                    await pc._more()
                block, pc.buf = pc.buf[2 : 2 + length + 16], pc.buf[2 + length + 16 :]
                plain += dec.decrypt(struct.pack("<H", length), PACK_NONCE(counters["in"]), block)
                counters["in"] += 1
            return plain

        def seal(plain: bytes, block: int = 1024) -> bytes:
            out = b""
            for i in range(0, len(plain), block):
                cur = plain[i : i + block]
                aad = struct.pack("<H", len(cur))
                out += aad + enc.encrypt(aad, PACK_NONCE(counters["out"]), cur)
                counters["out"] += 1
            return out

        for n, size in enumerate((3000, 10, 1024, 2049)):
            body = bytes((n + i) % 251 for i in range(size))
            task = asyncio.ensure_future(rig.conn.put(f"/big{n}", body))
            expect_head = (
                f"PUT /big{n} HTTP/1.1\r\nHost: 127.0.0.1\r\nContent-Length: {size}\r\n"
                "Content-Type: application/hap+json\r\n\r\n"
            ).encode()
            got = await read_plain(len(expect_head) + size)
            assert got == expect_head + body, "request bytes differ on the wire"
            wire = seal(event(ev(n)), 40) + seal(http({"for": n, "pad": "z" * 1500}), 700) + seal(event(ev(100 + n)))
            await pc.send(wire, pieces=11)
            res = await outcome(task)
            assert body_of(res)["for"] == n
        assert rig.owner.events == [ev(v) for n in range(4) for v in (n, 100 + n)]

        task = asyncio.ensure_future(rig.conn.get("/last"))
        await read_plain(10)
        half = seal(http({"for": "/last"}))
        await pc.send(half[:20])
        pc.fin()
        assert isinstance(await outcome(task), AccessoryDisconnectedError)
        assert await pc.client_went_away() < PROMPT


SCENARIOS = [
    ("s1 pipelined callers, interleaved events", s1_pipelined_own_responses_and_events, ()),
    ("s2 serialised callers", s2_serialised_callers, ()),
    ("s3 cancel, response after cancel", s3_cancel_with_late_response, (False,)),
    ("s3 cancel, response racing the cancel", s3_cancel_with_late_response, (True,)),
    ("s4 30 s timeout (warped clock)", s4_timeout, ()),
    ("s5 peer FIN with 3 outstanding", s5_peer_closes, ("fin",)),
    ("s5 peer RST with 3 outstanding", s5_peer_closes, ("rst",)),
    ("s6 unsolicited response, idle", s6_unsolicited_response, (False,)),
    ("s6 unsolicited response glued to a real one", s6_unsolicited_response, (True,)),
    ("s7 refusals", s7_refusals, ()),
    ("s8 secure session", s8_secure_session, ()),
]


async def run_all(rounds: int = 3) -> None:
    for rnd in range(rounds):
        for title, fn, args in SCENARIOS:
            await asyncio.wait_for(fn(*args), 3600)  # loop clock is warped by s4, keep this generous
            if rnd == 0:
                print(f"PASS  {title}")
    print(f"all {len(SCENARIOS)} scenarios passed x {rounds} rounds")
    print("\ntransport calls observed (information only, differs between versions):")
    for name, calls in TRACE.items():
        per_round = calls[: len(calls) // rounds]
        folded = [f"{call} x{n}" if n > 1 else call for call, n in ((c, len(list(g))) for c, g in groupby(per_round))]
        print(f"  {name}: {', '.join(folded)}")


def test_demo_k08a() -> None:
    asyncio.run(run_all())


if __name__ == "__main__":
    import aiohomekit

    print("aiohomekit from", aiohomekit.__file__)
    try:
        asyncio.run(run_all())
    except BaseException:
        import traceback

        traceback.print_exc()
        print("FAIL")
        sys.exit(1)
