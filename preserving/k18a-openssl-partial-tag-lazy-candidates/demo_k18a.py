"""Demonstration for change k18a (BLE encrypted broadcast notifications, property C18).

Runs against REAL objects: a real asyncio event loop, a real bleak ``BleakScanner`` whose
backend is a fake radio (``FakeRadio``) that hands real ``BLEDevice`` / ``AdvertisementData``
objects to the detection callback of a real ``BleController`` with real ``BlePairing`` objects
loaded from a real (in memory) characteristic cache.

The advertisements are produced by a fake accessory that seals them with an implementation that
is independent of the code under test (the one-shot AEAD of ``cryptography``; the 16 byte tag is
truncated to the 4 bytes HAP-BLE broadcasts carry).

A tiny reference model of the property decides for every advertisement of every history whether
it must be accepted; after each advertisement the demo compares

  * the pairing's last accepted state number,
  * the complete list of events delivered to the listeners (characteristic id and decoded value)

with the model.  It passes on the unmodified code and with the change applied.

Run:  PYTHONPATH=/tmp/wt/k18a /venv/bin/python demo_k18a.py     (or through pytest)
"""

from __future__ import annotations

import asyncio
import functools
import logging
import random
import struct
from typing import Any
from unittest.mock import patch

from bleak import BleakScanner
from bleak.backends.scanner import AdvertisementData, BaseBleakScanner
from cryptography.hazmat.primitives.ciphers.aead import ChaCha20Poly1305

import aiohomekit
from aiohomekit.characteristic_cache import CharacteristicCacheMemory
from aiohomekit.controller.ble.controller import BleController
from aiohomekit.controller.ble.pairing import BlePairing
from aiohomekit.model import Accessories, Accessory
from aiohomekit.model.characteristics import CharacteristicFormats
from aiohomekit.model.services import ServicesTypes

F = CharacteristicFormats
BLE_AID = 1
WINDOW = 99  # a notification may be at most this far ahead of the last accepted one


# --------------------------------------------------------------------------- fake radio
class FakeRadio(BaseBleakScanner):
    """A bleak scanner backend without a radio: advertisements are injected by the demo."""

    instances: list[FakeRadio] = []

    def __init__(self, detection_callback, service_uuids, scanning_mode, **kwargs: Any) -> None:
        super().__init__(detection_callback, service_uuids)
        self.scanning = False
        FakeRadio.instances.append(self)

    async def start(self) -> None:
        self.seen_devices = {}
        self.scanning = True

    async def stop(self) -> None:
        self.scanning = False

    def inject(self, address: str, name: str | None, apple_data: bytes) -> None:
        assert self.scanning
        adv = AdvertisementData(
            local_name=name,
            manufacturer_data={76: apple_data},
            service_data={},
            service_uuids=[],
            tx_power=-127,
            rssi=-60,
            platform_data=((),),
        )
        # one BLEDevice object per address, like the real backends
        device = self.create_or_update_device(address, address, name, None, adv)
        self.call_detection_callbacks(device, adv)


# ----------------------------------------------------------------------- fake accessory
def pack_nonce(counter: int) -> bytes:
    return struct.pack("<LQ", 0, counter)


class FakeAccessory:
    """The peer: produces regular and encrypted-notification advertisements."""

    def __init__(self, hkid: str, address: str, key: bytes) -> None:
        self.hkid = hkid
        self.address = address
        self.key = key
        self.adv_id = bytes.fromhex(hkid.replace(":", ""))

    def regular(self, gsn: int, config_num: int = 1) -> bytes:
        return (
            bytes([0x06, 0x31, 0x00])
            + self.adv_id
            + struct.pack("<HHBB", 5, gsn, config_num, 2)
            + b"\x01\x02\x03\x04"
        )

    def notification(
        self,
        gsn: int,
        iid: int,
        value8: bytes,
        *,
        inner_gsn: int | None = None,
        key: bytes | None = None,
        aad: bytes | None = None,
        header_id: bytes | None = None,
    ) -> bytes:
        inner = gsn if inner_gsn is None else inner_gsn
        plain = struct.pack("<HH", inner & 0xFFFF, iid) + value8.ljust(8, b"\x00")
        sealed = ChaCha20Poly1305(self.key if key is None else key).encrypt(
            pack_nonce(gsn), plain, self.adv_id if aad is None else aad
        )
        payload = sealed[:12] + sealed[12:16]  # ciphertext + first 4 bytes of the tag
        return bytes([0x11, 0x36]) + (self.adv_id if header_id is None else header_id) + payload


def flip_bit(apple_data: bytes, bit: int) -> bytes:
    """Flip one bit of the 16 byte encrypted payload (12 bytes ciphertext + 4 bytes tag)."""
    raw = bytearray(apple_data)
    raw[8 + bit // 8] ^= 1 << (bit % 8)
    return bytes(raw)


# ------------------------------------------------------------------- accessory database
CHARS: list[tuple[str, str]] = [
    ("00000101-1234-5678-9ABC-DEF012345678", F.bool),
    ("00000102-1234-5678-9ABC-DEF012345678", F.uint8),
    ("00000103-1234-5678-9ABC-DEF012345678", F.uint16),
    ("00000104-1234-5678-9ABC-DEF012345678", F.uint32),
    ("00000105-1234-5678-9ABC-DEF012345678", F.uint64),
    ("00000106-1234-5678-9ABC-DEF012345678", F.int),
    ("00000107-1234-5678-9ABC-DEF012345678", F.float),
    ("00000108-1234-5678-9ABC-DEF012345678", F.string),
    ("00000109-1234-5678-9ABC-DEF012345678", F.data),
    ("0000010A-1234-5678-9ABC-DEF012345678", F.tlv8),
]


def build_accessories() -> tuple[Accessories, dict[int, str]]:
    accessory = Accessory.create_with_info(BLE_AID, "demo", "demo", "demo", "0001", "1.0")
    service = accessory.add_service(ServicesTypes.SWITCH)
    formats: dict[int, str] = {}
    for char_type, fmt in CHARS:
        char = service.add_char(char_type, format=fmt, perms=["pr", "ev"], broadcast_events=True)
        formats[char.iid] = fmt
    accessories = Accessories()
    accessories.add_accessory(accessory)
    return accessories, formats


def random_value(rnd: random.Random, fmt: str) -> tuple[bytes, Any]:
    """Return (wire bytes, value the listeners must see); decoded independently of values.py."""
    if fmt == F.bool:
        v = rnd.random() < 0.5
        return bytes([v]), v
    if fmt == F.uint8:
        v = rnd.choice([0, 1, 255, rnd.randrange(256)])
        return v.to_bytes(1, "little"), v
    if fmt == F.uint16:
        v = rnd.choice([0, 65535, rnd.randrange(65536)])
        return v.to_bytes(2, "little"), v
    if fmt == F.uint32:
        v = rnd.choice([0, 2**32 - 1, rnd.randrange(2**32)])
        return v.to_bytes(4, "little"), v
    if fmt == F.uint64:
        v = rnd.choice([0, 2**64 - 1, rnd.randrange(2**64)])
        return v.to_bytes(8, "little"), v
    if fmt == F.int:
        v = rnd.choice([0, -1, -(2**31), 2**31 - 1, rnd.randrange(-(2**31), 2**31)])
        return v.to_bytes(4, "little", signed=True), v
    if fmt == F.float:
        raw = struct.pack("<f", rnd.choice([0.0, -1.5, 21.25, rnd.uniform(-1000, 1000)]))
        return raw, struct.unpack("<f", raw)[0]
    if fmt == F.string:
        text = rnd.choice(["", "a", "on", "héllo", "8 bytes!"])
        raw = text.encode().ljust(8, b"\x00")
        return raw, raw.decode()  # the 8 byte field is delivered as is
    raw = rnd.randbytes(8)
    return raw, raw.hex()


# --------------------------------------------------------------------------- the world
class World:
    def __init__(self, seed: int, start_gsn: int) -> None:
        self.rnd = random.Random(seed)
        self.cache = CharacteristicCacheMemory()
        self.controller = BleController(self.cache)
        self.accessories, self.formats = build_accessories()
        self.iids = sorted(self.formats)
        self.peers: dict[str, FakeAccessory] = {}
        self.pairings: dict[str, BlePairing] = {}
        self.events: dict[str, list[dict]] = {}
        self.expected: dict[str, list[dict]] = {}
        self.last: dict[str, int] = {}
        for n, (hkid, address) in enumerate(
            [("aa:bb:cc:dd:ee:ff", "AA:BB:CC:DD:EE:FF"), ("11:22:33:44:55:66", "11:22:33:44:55:66")]
        ):
            key = self.rnd.randbytes(32)
            self.peers[hkid] = FakeAccessory(hkid, address, key)
            # what an earlier session left in the cache: database, broadcast key, state number
            self.cache.async_create_or_update_map(hkid, 1, self.accessories.serialize(), key.hex(), start_gsn)
            pairing = self.controller.load_pairing(
                f"alias{n}",
                {"AccessoryPairingID": hkid, "AccessoryAddress": address, "Connection": "BLE"},
            )
            assert isinstance(pairing, BlePairing)
            self.pairings[hkid] = pairing
            self.events[hkid] = []
            self.expected[hkid] = []
            self.last[hkid] = start_gsn
            pairing.dispatcher_connect(self.events[hkid].append)
            # a second listener must see exactly the same
            pairing.dispatcher_connect(functools.partial(self._second_listener, hkid))
        self.second: dict[str, list[dict]] = {hkid: [] for hkid in self.peers}
        # genuine notifications that have been accepted once, for replays at later positions
        self.history: dict[str, list[bytes]] = {hkid: [] for hkid in self.peers}
        self.radio: FakeRadio | None = None
        self.sent = 0
        self.accepted = 0

    def _second_listener(self, hkid: str, event: dict) -> None:
        self.second[hkid].append(event)

    async def start(self) -> None:
        with patch(
            "aiohomekit.controller.ble.controller.BleakScanner",
            functools.partial(BleakScanner, backend=FakeRadio),
        ):
            await self.controller.async_start()
        assert isinstance(self.controller._scanner, BleakScanner)
        self.radio = FakeRadio.instances[-1]
        assert self.radio.scanning

    async def stop(self) -> None:
        await self.controller.async_stop()
        assert not self.radio.scanning

    # -- sending -----------------------------------------------------------------------
    def send(self, hkid: str, apple_data: bytes, accept: tuple[int, int, Any] | None) -> None:
        """Put one advertisement on the air and compare the pairing with the model.

        ``accept`` is None when the property demands the advertisement is ignored, else
        (state number, iid, value) of the notification that must be accepted.
        """
        peer = self.peers[hkid]
        if accept is not None:
            gsn, iid, value = accept
            self.last[hkid] = gsn
            self.expected[hkid].append({(BLE_AID, iid): {"value": value}})
            self.accepted += 1
        self.radio.inject(peer.address, "demo", apple_data)
        self.sent += 1
        self.check()

    def check(self) -> None:
        for hkid, pairing in self.pairings.items():
            assert pairing.description.state_num == self.last[hkid], (
                hkid,
                pairing.description.state_num,
                self.last[hkid],
            )
            assert self.events[hkid] == self.expected[hkid], (hkid, self.events[hkid][-2:], self.expected[hkid][-2:])
            assert self.second[hkid] == self.expected[hkid]
            for got, want in zip(self.events[hkid], self.expected[hkid]):
                (gv,), (wv,) = got.values(), want.values()
                assert type(gv["value"]) is type(wv["value"])

    def genuine(self, hkid: str, gsn: int, **kwargs: Any) -> tuple[bytes, tuple[int, int, Any]]:
        iid = self.rnd.choice(self.iids)
        raw, value = random_value(self.rnd, self.formats[iid])
        return self.peers[hkid].notification(gsn, iid, raw, **kwargs), (gsn, iid, value)

    def in_window(self, hkid: str, gsn: int) -> bool:
        # the inner counter is 16 bit, so state numbers above 65535 can never be accepted
        return self.last[hkid] < gsn <= self.last[hkid] + WINDOW and gsn <= 0xFFFF

    # -- the kinds of advertisement the property quantifies over -------------------------
    def step(self, hkid: str) -> None:
        rnd = self.rnd
        last = self.last[hkid]
        other = next(p for h, p in self.peers.items() if h != hkid)
        kind = rnd.choice(
            [
                "next", "next", "next", "ahead", "ahead", "edge", "current", "older", "beyond",
                "wrong_key", "wrong_aad", "other_header", "bitflip", "inner", "replay_any", "regular",
            ]
        )  # fmt: skip
        if kind == "next":
            gsn = last + 1
        elif kind == "ahead":
            gsn = last + rnd.randrange(2, WINDOW + 1)
        elif kind == "edge":
            gsn = last + WINDOW
        elif kind == "current":
            gsn = last
        elif kind == "older":
            gsn = max(0, last - rnd.randrange(1, 200))
        elif kind == "beyond":
            gsn = last + rnd.choice([WINDOW + 1, WINDOW + 2, 1000, 70000])
        else:
            gsn = last + rnd.choice([1, 1, 2, 50])

        if kind in ("next", "ahead", "edge", "current", "older", "beyond"):
            data, accept = self.genuine(hkid, gsn)
            accepted = self.in_window(hkid, gsn)
            self.send(hkid, data, accept if accepted else None)
            if accepted:
                # freshness: what was accepted once is rejected when replayed, now ...
                self.send(hkid, data, None)
                # ... and at any later position of the history ("replay_any")
                self.history[hkid].append(data)
        elif kind == "wrong_key":
            data, _ = self.genuine(hkid, gsn, key=rnd.choice([other.key, rnd.randbytes(32)]))
            self.send(hkid, data, None)
        elif kind == "wrong_aad":
            # sealed for another advertising identifier but carrying ours in the clear
            data, _ = self.genuine(hkid, gsn, aad=rnd.choice([other.adv_id, rnd.randbytes(6)]))
            self.send(hkid, data, None)
        elif kind == "other_header":
            # genuine for us, but the clear text identifier routes it to the other pairing
            # (which has another key) or to nobody
            data, _ = self.genuine(hkid, gsn, header_id=rnd.choice([other.adv_id, rnd.randbytes(6)]))
            self.send(hkid, data, None)
        elif kind == "bitflip":
            data, accept = self.genuine(hkid, gsn)
            for bit in rnd.sample(range(128), 6):
                self.send(hkid, flip_bit(data, bit), None)
            if self.in_window(hkid, gsn):
                # the corrupted copies have not consumed the state number
                self.send(hkid, data, accept)
                self.send(hkid, data, None)
                self.history[hkid].append(data)
        elif kind == "inner":
            inner = gsn + rnd.choice([1, -1, 256, WINDOW])
            data, _ = self.genuine(hkid, gsn, inner_gsn=inner)
            self.send(hkid, data, None)
        elif kind == "replay_any":
            if self.history[hkid]:
                self.send(hkid, rnd.choice(self.history[hkid]), None)
        elif kind == "regular":
            # the plain advertisement announces the current (or a newer) state number
            gsn = min(0xFFFF, last + rnd.choice([0, 0, 1, 3]))
            self.last[hkid] = gsn
            self.send(hkid, self.peers[hkid].regular(gsn), None)


async def drain() -> None:
    """Let the catch-up poll tasks (fallback for undecryptable notifications) run to completion."""
    for _ in range(5):
        await asyncio.sleep(0)
    pending = [t for t in asyncio.all_tasks() if t is not asyncio.current_task()]
    assert not pending, pending


class ErrorCollector(logging.Handler):
    def __init__(self) -> None:
        super().__init__(logging.ERROR)
        self.records: list[logging.LogRecord] = []

    def emit(self, record: logging.LogRecord) -> None:
        self.records.append(record)


async def scenario_histories(seed: int, start_gsn: int, steps: int) -> tuple[int, int]:
    """Random histories, interleaved between two pairings that share one radio."""
    world = World(seed, start_gsn)
    await world.start()
    hkids = list(world.peers)
    for _ in range(steps):
        world.step(world.rnd.choice(hkids))
        if world.rnd.random() < 0.2:
            await drain()  # interleave with the event loop running the fallback tasks
    await drain()
    world.check()
    await world.stop()
    return world.sent, world.accepted


async def scenario_every_bit(start_gsn: int) -> int:
    """Every single-bit corruption of payload and tag of a genuine next notification."""
    world = World(4242 + start_gsn, start_gsn)
    await world.start()
    hkid = "aa:bb:cc:dd:ee:ff"
    for ahead in (1, 7):
        gsn = world.last[hkid] + ahead
        data, accept = world.genuine(hkid, gsn)
        for bit in range(128):
            world.send(hkid, flip_bit(data, bit), None)
        # truncated payloads are not notifications either
        for cut in range(8, len(data)):
            world.send(hkid, data[:cut], None)
        await drain()
        world.send(hkid, data, accept)
        world.send(hkid, data, None)
        for bit in range(0, 128, 9):
            world.send(hkid, flip_bit(data, bit), None)
    await drain()
    await world.stop()
    return world.sent


async def scenario_no_key_no_description() -> None:
    """Without a broadcast key or before any advertisement nothing is accepted."""
    cache = CharacteristicCacheMemory()
    controller = BleController(cache)
    accessories, formats = build_accessories()
    key = bytes(range(32))
    peer = FakeAccessory("aa:bb:cc:dd:ee:ff", "AA:BB:CC:DD:EE:FF", key)
    pairing_data = {"AccessoryPairingID": peer.hkid, "AccessoryAddress": peer.address, "Connection": "BLE"}
    # no key in the cache
    cache.async_create_or_update_map(peer.hkid, 1, accessories.serialize(), None, 10)
    with patch(
        "aiohomekit.controller.ble.controller.BleakScanner", functools.partial(BleakScanner, backend=FakeRadio)
    ):
        await controller.async_start()
    radio = FakeRadio.instances[-1]
    pairing = controller.load_pairing("a", pairing_data)
    events: list[dict] = []
    pairing.dispatcher_connect(events.append)
    iid = sorted(formats)[1]
    radio.inject(peer.address, "demo", peer.notification(11, iid, b"\x07"))
    await drain()
    assert events == [] and pairing.description.state_num == 10
    # key but no description (no state number cached, no advertisement seen yet)
    cache.async_create_or_update_map(peer.hkid, 1, accessories.serialize(), key.hex(), None)
    pairing = controller.load_pairing("a", pairing_data)
    pairing.dispatcher_connect(events.append)
    assert pairing.description is None
    radio.inject(peer.address, "demo", peer.notification(1, iid, b"\x07"))
    await drain()
    assert events == [] and pairing.description is None
    # the plain advertisement arrives: from now on notifications are accepted
    radio.inject(peer.address, "demo", peer.regular(20))
    radio.inject(peer.address, "demo", peer.notification(21, iid, b"\x07"))
    assert events == [{(BLE_AID, iid): {"value": 7}}] and pairing.description.state_num == 21
    radio.inject(peer.address, "demo", peer.notification(21, iid, b"\x07"))
    radio.inject(peer.address, "demo", peer.notification(20, iid, b"\x09"))
    assert len(events) == 1 and pairing.description.state_num == 21
    await drain()
    await controller.async_stop()


async def main() -> None:
    assert aiohomekit.__file__.startswith("/tmp/wt/k18a/"), aiohomekit.__file__
    errors = ErrorCollector()
    logging.getLogger().addHandler(errors)
    logging.getLogger("aiohomekit").setLevel(logging.WARNING)
    total_sent = total_accepted = 0
    for seed, start_gsn in enumerate([1, 2, 99, 100, 4660, 32767, 65300, 65436, 65500, 65534, 65535]):
        sent, accepted = await scenario_histories(seed, start_gsn, steps=120)
        assert accepted > 0 or start_gsn >= 65535
        total_sent += sent
        total_accepted += accepted
    for start_gsn in (1, 300, 65000):
        total_sent += await scenario_every_bit(start_gsn)
    await scenario_no_key_no_description()
    unexpected = [
        r.getMessage()
        for r in errors.records
        # scenario_no_key_no_description provokes exactly this one
        if "Received encrypted notification before advertisement" not in r.getMessage()
    ]
    assert not unexpected, unexpected
    assert len(errors.records) == 1
    print(f"demo_k18a: OK ({total_sent} advertisements, {total_accepted} accepted in random histories)")


def test_demo_k18a() -> None:
    asyncio.run(main())


if __name__ == "__main__":
    asyncio.run(main())
