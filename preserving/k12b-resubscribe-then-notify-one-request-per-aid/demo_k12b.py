"""Demonstration for change k12b (property C12).

Real asyncio event loop, real loopback TCP sockets, the real IpPairing /
SecureHomeKitConnection / SecureHomeKitProtocol classes, a real in-memory
characteristic cache.  The peer is a small asyncio HAP accessory living in this
file: it performs a genuine pair-verify (x25519 / ed25519 / hkdf /
chacha20-poly1305 from the library and `cryptography`) and then talks the
encrypted HAP session protocol, logging every request it decrypts.  It lets the
scenario cut the TCP connection at chosen points and write EVENT messages in
bursts, split over frames / TCP writes, with empty and non-JSON bodies.

The checks are written against the property, not against the mechanism, so the
script passes on the unmodified library and with the change applied:

    PYTHONPATH=/tmp/wt/k12b /venv/bin/python demo_k12b.py
    PYTHONPATH=/tmp/wt/k12b /venv/bin/python -m pytest -q -p no:cacheprovider demo_k12b.py
"""

from __future__ import annotations

import asyncio
import json
import logging
import sys

from cryptography.hazmat.primitives import serialization
from cryptography.hazmat.primitives.asymmetric import ed25519, x25519

from aiohomekit.characteristic_cache import CharacteristicCacheMemory
from aiohomekit.controller.ip.pairing import IpPairing
from aiohomekit.crypto import hkdf_derive
from aiohomekit.crypto.chacha20poly1305 import (
    NONCE_PADDING,
    PACK_NONCE,
    ChaCha20Poly1305Decryptor,
    ChaCha20Poly1305Encryptor,
)
from aiohomekit.protocol.tlv import TLV

# Informational only (never asserted): what an outside observer sees, in order.
TIMELINE: list[str] = []

ACCESSORY_ID = "12:34:56:00:01:0A"
CONTROLLER_ID = "decc6fa3-de3e-41c9-adba-ef7409821bfc"
RAW = dict(encoding=serialization.Encoding.Raw, format=serialization.PublicFormat.Raw)


class Cut(Exception):
    """Raised inside the fake accessory to drop the TCP connection."""


class Session:
    """One TCP connection as seen by the fake accessory."""

    def __init__(self, idx: int, reader: asyncio.StreamReader, writer: asyncio.StreamWriter) -> None:
        self.idx = idx
        self.reader = reader
        self.writer = writer
        self.secure = False
        self.alive = True
        self.c2a_key = self.a2c_key = b""
        self.c2a_cnt = self.a2c_cnt = 0
        self.ev: set[tuple[int, int]] = set()  # characteristics with ev=true on this connection
        self.puts: list[list[tuple[int, int, bool]]] = []  # every PUT /characteristics with "ev"
        self.pv: dict = {}

    def frames(self, plain: bytes, block: int = 1024) -> list[bytes]:
        """Encrypt plaintext into HAP session frames (consumes nonces, so send them in order)."""
        out = []
        while plain:
            chunk, plain = plain[:block], plain[block:]
            length = len(chunk).to_bytes(2, "little")
            out.append(length + ChaCha20Poly1305Encryptor(self.a2c_key).encrypt(length, PACK_NONCE(self.a2c_cnt), chunk))
            self.a2c_cnt += 1
        return out

    async def write(self, *chunks: bytes, gap: float = 0.0) -> None:
        """Write each chunk with its own send(); a gap forces separate reads on the other side."""
        for chunk in chunks:
            self.writer.write(chunk)
            await self.writer.drain()
            if gap:
                await asyncio.sleep(gap)

    def abort(self) -> None:
        self.alive = False
        self.writer.transport.abort()

    def eof(self) -> None:
        self.alive = False
        self.writer.close()


def event_message(body: bytes | None) -> bytes:
    if body is None:
        return b"EVENT/1.0 200 OK\r\nContent-Type: application/hap+json\r\nContent-Length: 0\r\n\r\n"
    return (
        b"EVENT/1.0 200 OK\r\nContent-Type: application/hap+json\r\nContent-Length: "
        + str(len(body)).encode()
        + b"\r\n\r\n"
        + body
    )


def event_body(*rows: tuple[int, int, object]) -> bytes:
    return json.dumps({"characteristics": [{"aid": a, "iid": i, "value": v} for a, i, v in rows]}).encode()


class FakeAccessory:
    def __init__(self) -> None:
        self.ltsk = ed25519.Ed25519PrivateKey.generate()
        self.controller_ltsk = ed25519.Ed25519PrivateKey.generate()
        self.sessions: list[Session] = []
        self.put_hook = None  # callable(session, rows) -> None | "cut" | ("events", [plaintext, ...])
        self.server: asyncio.AbstractServer | None = None
        self.port = 0

    async def start(self) -> None:
        self.server = await asyncio.start_server(self._handle, "127.0.0.1", 0)
        self.port = self.server.sockets[0].getsockname()[1]

    async def stop(self) -> None:
        for s in self.sessions:
            if s.alive:
                s.abort()
        self.server.close()
        await self.server.wait_closed()

    @property
    def pairing_data(self) -> dict:
        return {
            "Connection": "IP",
            "AccessoryPairingID": ACCESSORY_ID,
            "AccessoryLTPK": self.ltsk.public_key().public_bytes(**RAW).hex(),
            "iOSPairingId": CONTROLLER_ID,
            "iOSDeviceLTSK": self.controller_ltsk.private_bytes(
                encoding=serialization.Encoding.Raw,
                format=serialization.PrivateFormat.Raw,
                encryption_algorithm=serialization.NoEncryption(),
            ).hex(),
            "iOSDeviceLTPK": self.controller_ltsk.public_key().public_bytes(**RAW).hex(),
            "AccessoryIP": "127.0.0.1",
            "AccessoryPort": self.port,
        }

    # -- plumbing ---------------------------------------------------------------------------
    @staticmethod
    def _parse_request(buf: bytes):
        """Return ((method, target, body), rest) or None if the request is not complete yet."""
        head, sep, rest = buf.partition(b"\r\n\r\n")
        if not sep:
            return None
        lines = head.decode().split("\r\n")
        method, target, _ = lines[0].split(" ", 2)
        length = 0
        for line in lines[1:]:
            name, _, value = line.partition(":")
            if name.strip().lower() == "content-length":
                length = int(value)
        if len(rest) < length:
            return None
        return (method, target, rest[:length]), rest[length:]

    async def _handle(self, reader: asyncio.StreamReader, writer: asyncio.StreamWriter) -> None:
        sess = Session(len(self.sessions), reader, writer)
        self.sessions.append(sess)
        buf = b""
        try:
            while True:
                if not sess.secure:
                    data = await reader.read(65536)
                    if not data:
                        return
                    buf += data
                else:
                    header = await reader.readexactly(2)
                    blob = await reader.readexactly(int.from_bytes(header, "little") + 16)
                    buf += ChaCha20Poly1305Decryptor(sess.c2a_key).decrypt(header, PACK_NONCE(sess.c2a_cnt), blob)
                    sess.c2a_cnt += 1
                while parsed := self._parse_request(buf):
                    request, buf = parsed
                    await self._on_request(sess, *request)
        except (Cut, asyncio.IncompleteReadError, ConnectionError):
            pass
        finally:
            sess.alive = False
            writer.transport.abort()

    async def _on_request(self, sess: Session, method: str, target: str, body: bytes) -> None:
        if not sess.secure:
            assert (method, target) == ("POST", "/pair-verify"), (method, target)
            reply = bytes(TLV.encode_list(self._pair_verify(sess, body)))
            await sess.write(
                b"HTTP/1.1 200 OK\r\nContent-Type: application/pairing+tlv8\r\nContent-Length: "
                + str(len(reply)).encode()
                + b"\r\n\r\n"
                + reply
            )
            if "done" in sess.pv:
                sess.secure = True
            return

        assert (method, target) == ("PUT", "/characteristics"), (method, target)
        rows = [(c["aid"], c["iid"], c["ev"]) for c in json.loads(body)["characteristics"]]
        sess.puts.append(rows)
        TIMELINE.append("put" + json.dumps([[a, i] for a, i, _ in rows], separators=(",", ":")))
        action = self.put_hook(sess, rows) if self.put_hook else None
        if action == "cut":
            raise Cut
        for aid, iid, ev in rows:
            (sess.ev.add if ev else sess.ev.discard)((aid, iid))
        if isinstance(action, tuple) and action[0] == "events":
            # events overtake the reply to the subscription request
            for plain in action[1]:
                await sess.write(*sess.frames(plain))
        await sess.write(*sess.frames(b"HTTP/1.1 204 No Content\r\n\r\n"))

    def _pair_verify(self, sess: Session, body: bytes) -> list:
        req = dict(TLV.decode_bytes(body))
        if req[TLV.kTLVType_State] == TLV.M1:
            key = x25519.X25519PrivateKey.generate()
            spk = key.public_key().public_bytes(**RAW)
            ios_pk = bytes(req[TLV.kTLVType_PublicKey])
            shared = key.exchange(x25519.X25519PublicKey.from_public_bytes(ios_pk))
            session_key = hkdf_derive(shared, b"Pair-Verify-Encrypt-Salt", b"Pair-Verify-Encrypt-Info")
            sess.pv = {"spk": spk, "ios_pk": ios_pk, "shared": shared, "session_key": session_key}
            sub = TLV.encode_list(
                [
                    (TLV.kTLVType_Identifier, ACCESSORY_ID.encode()),
                    (TLV.kTLVType_Signature, self.ltsk.sign(spk + ACCESSORY_ID.encode() + ios_pk)),
                ]
            )
            enc = ChaCha20Poly1305Encryptor(session_key).encrypt(b"", NONCE_PADDING + b"PV-Msg02", bytes(sub))
            return [
                (TLV.kTLVType_State, TLV.M2),
                (TLV.kTLVType_PublicKey, spk),
                (TLV.kTLVType_EncryptedData, enc),
            ]
        assert req[TLV.kTLVType_State] == TLV.M3
        pv = sess.pv
        dec = ChaCha20Poly1305Decryptor(pv["session_key"]).decrypt(
            b"", NONCE_PADDING + b"PV-Msg03", bytes(req[TLV.kTLVType_EncryptedData])
        )
        sub = dict(TLV.decode_bytes(dec))
        ios_id = bytes(sub[TLV.kTLVType_Identifier])
        assert ios_id == CONTROLLER_ID.encode()
        self.controller_ltsk.public_key().verify(
            bytes(sub[TLV.kTLVType_Signature]), pv["ios_pk"] + ios_id + pv["spk"]
        )
        sess.c2a_key = hkdf_derive(pv["shared"], b"Control-Salt", b"Control-Write-Encryption-Key")
        sess.a2c_key = hkdf_derive(pv["shared"], b"Control-Salt", b"Control-Read-Encryption-Key")
        pv["done"] = True
        return [(TLV.kTLVType_State, TLV.M4)]


class StubController:
    """IpPairing only needs the characteristic cache of its controller here."""

    def __init__(self) -> None:
        self._char_cache = CharacteristicCacheMemory()


class Recorder:
    """A listener.  Keeps everything it is given; optionally raises every time."""

    def __init__(self, name: str, raises: bool = False) -> None:
        self.name = name
        self.raises = raises
        self.calls: list[dict] = []

    def __call__(self, event: dict) -> None:
        self.calls.append(dict(event))
        if self.name == "good" and not event:
            TIMELINE.append("BACK")
        if self.raises:
            raise ValueError(f"listener {self.name} always raises")

    @property
    def events(self) -> list[dict]:
        return [c for c in self.calls if c]

    @property
    def back(self) -> int:
        """How many times this listener was told that the connection is back."""
        return sum(1 for c in self.calls if not c)


async def until(predicate, what: str, timeout: float = 10.0) -> None:
    deadline = asyncio.get_running_loop().time() + timeout
    while not predicate():
        if asyncio.get_running_loop().time() > deadline:
            raise AssertionError(f"timed out waiting for: {what}")
        await asyncio.sleep(0.01)


def settled(pairing: IpPairing, acc: FakeAccessory, after_idx: int):
    """True once a connection newer than session `after_idx` is fully set up on both sides."""

    def check() -> bool:
        conn = pairing.connection
        last = acc.sessions[-1]
        return bool(
            last.idx > after_idx
            and last.secure
            and last.alive
            and conn.is_connected
            and conn._connector is not None
            and conn._connector.done()
        )

    return check


async def main() -> None:
    logging.getLogger("aiohomekit").setLevel(logging.CRITICAL)  # listener tracebacks are expected
    acc = FakeAccessory()
    await acc.start()
    pairing = IpPairing(StubController(), acc.pairing_data)

    good = Recorder("good")
    bad = Recorder("bad", raises=True)
    cancel_good = pairing.dispatcher_connect(good)
    pairing.dispatcher_connect(bad)

    # ---- A. subscribe / unsubscribe history over several accessory ids, overlapping sets ------
    await pairing.subscribe([(1, 10), (2, 10), (1, 11), (3, 7), (2, 12)])  # connects
    await pairing.subscribe({(2, 11), (1, 10), (3, 7), (17, 2)})  # overlaps
    await pairing.unsubscribe([(1, 11), (2, 12)])
    expected = {(1, 10), (2, 10), (3, 7), (2, 11), (17, 2)}
    assert pairing.subscriptions == expected, pairing.subscriptions
    first = acc.sessions[-1]
    assert first.ev == expected, first.ev
    assert good.back >= 1 and bad.back >= 1  # told about the very first connection as well

    # ---- A'. drop the idle connection again and again; every new connection is re-subscribed ---
    for cycle in range(4):
        before = acc.sessions[-1]
        del TIMELINE[:]
        told = (good.back, bad.back)
        if cycle % 2:
            before.eof()  # graceful FIN
        else:
            before.abort()  # RST
        await until(settled(pairing, acc, before.idx), f"reconnect {cycle}")
        now = acc.sessions[-1]
        assert now.ev == pairing.subscriptions == expected, (cycle, now.ev)
        assert all(ev for put in now.puts for _, _, ev in put)
        asked = [(a, i) for put in now.puts for a, i, _ in put]
        assert sorted(asked) == sorted(expected), asked  # each asked exactly once
        assert all(len({a for a, _, _ in put}) == 1 for put in now.puts)  # one accessory id per request
        assert good.back > told[0] and bad.back > told[1], "listeners must hear the connection is back"
        print(f"  [info] reconnect {cycle} as seen from outside: {' '.join(TIMELINE)}")
        # a change of the subscription set between reconnects is honoured by the next reconnect
        if cycle == 1:
            await pairing.unsubscribe([(17, 2)])
            await pairing.subscribe([(4, 4)])
            expected = (expected - {(17, 2)}) | {(4, 4)}
            assert now.ev == expected

    # ---- B. events: bursts, split over frames and TCP writes, empty and non-JSON bodies --------
    sess = acc.sessions[-1]
    sent: list[dict] = []

    def ev(*rows):
        sent.append({(a, i): {"value": v} for a, i, v in rows})
        return event_message(event_body(*rows))

    # three events in ONE frame / one read, the middle one carrying two characteristics
    burst = ev((1, 10, 1)) + ev((2, 10, 2), (2, 11, 3)) + ev((1, 10, 4))
    await sess.write(*sess.frames(burst))
    await until(lambda: len(good.events) == 3, "first burst")

    late = Recorder("late")
    pairing.dispatcher_connect(late)  # registered after the first burst
    n_late = len(sent)

    # one event split over three frames, each frame in its own TCP write
    split = ev((3, 7, "x" * 50))
    await sess.write(*sess.frames(split, block=40), gap=0.02)
    # one frame split in the middle over two TCP writes, followed in the same write by another event
    f1 = sess.frames(ev((4, 4, 5)))[0]
    f2 = sess.frames(ev((1, 10, 6)))[0]
    await sess.write(f1[:9], f1[9:] + f2, gap=0.02)
    # empty body and non-JSON bodies: nobody is called, nothing breaks
    await sess.write(*sess.frames(event_message(None) + event_message(b"this is {not json") + event_message(b"[1,")))
    await sess.write(*sess.frames(ev((2, 10, 7))))
    await until(lambda: len(good.events) == len(sent), "split / odd events")

    cancel_good()  # removed: must not see anything that arrives from now on
    n_good = len(sent)
    await sess.write(*sess.frames(ev((2, 11, 8)) + ev((2, 11, 9))))
    await until(lambda: len(bad.events) == len(sent), "events after listener removal")
    await asyncio.sleep(0.05)

    assert bad.events == sent, "raising listener: every event once, in order"
    assert good.events == sent[:n_good], "removed listener: everything up to its removal, once, in order"
    assert late.events == sent[n_late:], "late listener: everything after its registration, once, in order"
    # the raising listener and the odd events did not break the connection
    assert sess.alive and pairing.is_connected and acc.sessions[-1] is sess
    await pairing.subscribe([(5, 5)])
    expected |= {(5, 5)}
    assert sess.ev == expected and acc.sessions[-1] is sess
    pairing.dispatcher_connect(good)

    # ---- C. connection dies in the middle of an event; events race with the re-subscription ----
    half = sess.frames(event_message(event_body((1, 10, "never-complete"))))[0]
    await sess.write(half[: len(half) // 2])
    await asyncio.sleep(0.05)

    def events_during_resubscribe(s: Session, rows):
        # after the first re-subscription request, push events before answering it
        if len(s.puts) == 1:
            return ("events", [ev((9, 9, "during-1")) + ev((9, 9, "during-2"))])
        return None

    acc.put_hook = events_during_resubscribe
    n_before = len(sent)
    told = (good.back, bad.back, late.back)
    sess.abort()
    await until(settled(pairing, acc, sess.idx), "reconnect with events during re-subscription")
    acc.put_hook = None
    sess = acc.sessions[-1]
    assert sess.ev == pairing.subscriptions == expected
    await sess.write(*sess.frames(ev((1, 10, "after"))))
    await until(lambda: len(bad.events) == len(sent), "events around the reconnect")
    await asyncio.sleep(0.05)
    for listener in (good, bad, late):
        assert listener.events[-(len(sent) - n_before) :] == sent[n_before:], listener.name
        assert not any("never-complete" in str(e) for e in listener.events)
    assert good.back > told[0] and bad.back > told[1] and late.back > told[2]
    assert sess.alive and pairing.is_connected

    # ---- D. a re-subscription request is cut off by a disconnection -> polling fallback --------
    def cut_second_request(s: Session, rows):
        return "cut" if len(s.puts) == 2 else None

    acc.put_hook = cut_second_request
    told = (good.back, bad.back, late.back)
    victim_idx = sess.idx + 1
    sess.abort()
    # connection victim_idx is cut inside the re-subscription; the library must recover by itself
    await until(settled(pairing, acc, victim_idx), "recovery after cut re-subscription")
    acc.put_hook = None
    victim, sess = acc.sessions[victim_idx], acc.sessions[-1]
    assert len(victim.puts) == 2 and not victim.alive
    assert pairing.supports_subscribe is False  # deliberate fallback to polling ...
    assert sess.puts == []  # ... so the accessory is not asked again
    assert pairing.subscriptions == expected  # but nothing was forgotten
    assert good.back > told[0] and bad.back > told[1] and late.back > told[2]
    assert sess.alive and pairing.is_connected

    # events (should the accessory still send any) are still delivered exactly once, in order
    n_before = len(sent)
    await sess.write(*sess.frames(ev((1, 10, "p")) + ev((1, 10, "q"))))
    await until(lambda: len(bad.events) == len(sent), "events after fallback")
    for listener in (good, bad, late):
        assert listener.events[-2:] == sent[n_before:], listener.name

    # ---- E. and one more reconnect for good measure: listeners are still told -------------------
    told = (good.back, bad.back, late.back)
    sess.eof()
    await until(settled(pairing, acc, sess.idx), "reconnect after fallback")
    assert good.back > told[0] and bad.back > told[1] and late.back > told[2]

    await pairing.close()
    await acc.stop()
    print(
        f"demo_k12b OK: {len(acc.sessions)} connections, {len(sent)} events, "
        f"good/bad/late told 'back' {good.back}/{bad.back}/{late.back} times"
    )


def test_demo_k12b() -> None:
    asyncio.run(main())


if __name__ == "__main__":
    asyncio.run(main())
    sys.exit(0)
