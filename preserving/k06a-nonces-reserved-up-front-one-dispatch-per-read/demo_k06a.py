"""
Demonstration for change k06a (SecureHomeKitProtocol batches its work).

Everything here is real: the default asyncio event loop, real loopback TCP
sockets, the real SecureHomeKitProtocol / HttpResponse / ChaCha20 classes.
The only fake is the *peer*: a scripted accessory that owns the other end of
the TCP connection and the same session keys, and a tiny stand-in for the
HomeKitConnection object the protocol reports to (events / connection loss).

What is checked (property C06, IP transport):

  * outgoing: every frame the controller ever puts on the wire under one
    session key decrypts under exactly one nonce, all those nonces are
    distinct, and they are 0, 1, 2, ... in wire order (so the accessory can
    follow) - across requests of many sizes, pipelined requests, failed
    requests, cancelled requests, timed out requests and requests attempted
    after the connection died;
  * incoming: every genuine frame is accepted at most once and only in the
    order it was sent; a replayed frame, a frame with a future counter (= a
    dropped or reordered frame), a corrupted frame (ciphertext, tag or length
    prefix) is never accepted, and nothing after it is accepted either, no
    matter how the frames are cut into TCP segments or coalesced into one.

Run:  PYTHONPATH=/tmp/wt/k06a /venv/bin/python demo_k06a.py
 or:  PYTHONPATH=/tmp/wt/k06a /venv/bin/python -m pytest -q -p no:cacheprovider demo_k06a.py
"""

from __future__ import annotations

import asyncio
import contextlib
import os
import random
import socket
import struct
import sys

from cryptography.exceptions import InvalidTag
from cryptography.hazmat.primitives.ciphers.aead import ChaCha20Poly1305

import aiohomekit
from aiohomekit.controller.ip import connection as ipconn
from aiohomekit.controller.ip.connection import SecureHomeKitProtocol
from aiohomekit.exceptions import AccessoryDisconnectedError


def nonce(counter: int) -> bytes:
    # Independent spelling of the HAP nonce: 4 zero bytes + 64 bit LE counter
    return b"\x00\x00\x00\x00" + counter.to_bytes(8, "little")


class StubConnection:
    """What SecureHomeKitProtocol needs from its HomeKitConnection."""

    def __init__(self) -> None:
        self.protocol = None
        self.transport = None
        self.events: list[bytes] = []
        self.lost: list[BaseException | None] = []

    def _connection_lost(self, exc):
        self.lost.append(exc)

    def event_received(self, event):
        self.events.append(bytes(event.body))


class Accessory:
    """The scripted peer. Uses `cryptography` directly, not aiohomekit."""

    def __init__(self, reader, writer, c2a_key: bytes, a2c_key: bytes) -> None:
        self.reader = reader
        self.writer = writer
        self.c2a = ChaCha20Poly1305(c2a_key)
        self.a2c = ChaCha20Poly1305(a2c_key)
        self.send_counter = 0
        self.sent_frames: list[bytes] = []  # genuine frames, for replays
        self.seen_nonces: list[int] = []  # nonce of every frame the controller sent
        self.raw_in = bytearray()

    # --- controller -> accessory -------------------------------------------------

    def _which_nonce(self, aad: bytes, block: bytes) -> tuple[int, bytes]:
        """Find the nonce(s) a controller frame was made with."""
        hits = []
        for counter in range(len(self.seen_nonces) + 8):
            try:
                hits.append((counter, self.c2a.decrypt(nonce(counter), block, aad)))
            except InvalidTag:
                pass
        assert len(hits) == 1, f"frame decrypts under {len(hits)} nonces"
        return hits[0]

    async def read_plain(self, nbytes: int) -> bytes:
        """Read controller frames until nbytes of plaintext arrived."""
        plain = bytearray()
        while len(plain) < nbytes:
            aad = await self.reader.readexactly(2)
            (length,) = struct.unpack("<H", aad)
            assert 0 < length <= 1024, length
            block = await self.reader.readexactly(length + 16)
            counter, chunk = self._which_nonce(aad, block)
            # the accessory only follows if the nonces are 0, 1, 2, ... in wire order
            assert counter == len(self.seen_nonces), (counter, self.seen_nonces)
            self.seen_nonces.append(counter)
            assert len(chunk) == length
            plain += chunk
        assert len(plain) == nbytes
        return bytes(plain)

    async def expect_silence_then_eof(self, timeout: float = 2.0) -> None:
        """The controller must not send anything else; it closes instead."""
        try:
            rest = await asyncio.wait_for(self.reader.read(), timeout)
        except ConnectionError:
            # the controller dropped the socket with our late frame unread: RST
            rest = b""
        assert rest == b"", f"unexpected {len(rest)} bytes from the controller"

    # --- accessory -> controller -------------------------------------------------

    def frame(self, chunk: bytes, counter: int | None = None) -> bytes:
        genuine = counter is None
        if genuine:
            counter = self.send_counter
            self.send_counter += 1
        aad = struct.pack("<H", len(chunk))
        out = aad + self.a2c.encrypt(nonce(counter), chunk, aad)
        if genuine:
            self.sent_frames.append(out)
        return out

    def frames(self, message: bytes) -> list[bytes]:
        return [self.frame(message[i : i + 1024]) for i in range(0, len(message), 1024)]

    async def write(self, data: bytes, cuts: list[int] | None = None) -> None:
        """Write data, optionally as several TCP segments cut at `cuts`."""
        pieces = []
        last = 0
        for cut in sorted(set(cuts or [])):
            if 0 < cut < len(data):
                pieces.append(data[last:cut])
                last = cut
        pieces.append(data[last:])
        with contextlib.suppress(ConnectionError):
            for idx, piece in enumerate(pieces):
                if idx:
                    await asyncio.sleep(0.003)  # let the other side read the piece
                self.writer.write(piece)
                await self.writer.drain()


def response(body: bytes) -> bytes:
    return b"HTTP/1.1 200 OK\r\nContent-Length: %d\r\n\r\n%b" % (len(body), body)


def chunked_response(body: bytes, rng: random.Random) -> bytes:
    out = bytearray(b"HTTP/1.1 200 OK\r\nTransfer-Encoding: chunked\r\n\r\n")
    pos = 0
    while pos < len(body):
        size = rng.randint(1, 700)
        piece = body[pos : pos + size]
        out += b"%x\r\n%b\r\n" % (len(piece), piece)
        pos += size
    out += b"0\r\n\r\n"
    return bytes(out)


def event(body: bytes) -> bytes:
    return b"EVENT/1.0 200 OK\r\nContent-Length: %d\r\n\r\n%b" % (len(body), body)


def body_for(seq: int, size: int, rng: random.Random) -> bytes:
    # No CR/LF inside so the chunked parser of the library is not confused
    head = b"msg-%06d-" % seq
    return head + bytes(rng.choice(b"abcdefghijklmnopqrstuvwxyz") for _ in range(max(0, size - len(head))))


async def until(cond, timeout: float = 3.0) -> None:
    deadline = asyncio.get_running_loop().time() + timeout
    while not cond():
        assert asyncio.get_running_loop().time() < deadline, "condition not reached"
        await asyncio.sleep(0.002)


class Session:
    """One TCP connection + one pair of session keys."""

    def __init__(self, server: Server) -> None:
        self.server = server

    async def __aenter__(self) -> Session:
        loop = asyncio.get_running_loop()
        c2a_key, a2c_key = os.urandom(32), os.urandom(32)
        self.stub = StubConnection()
        transport, protocol = await loop.create_connection(
            lambda: SecureHomeKitProtocol(self.stub, a2c_key, c2a_key), "127.0.0.1", self.server.port
        )
        self.stub.protocol = protocol
        self.stub.transport = transport
        self.transport = transport
        self.protocol = protocol
        reader, writer = await self.server.accepted.get()
        writer.get_extra_info("socket").setsockopt(socket.IPPROTO_TCP, socket.TCP_NODELAY, 1)
        self.acc = Accessory(reader, writer, c2a_key, a2c_key)
        self.tasks: list[asyncio.Task] = []
        return self

    async def __aexit__(self, *exc) -> None:
        self.transport.abort()
        # requests still in flight when the scenario ends just fail
        await asyncio.gather(*self.tasks, return_exceptions=True)
        self.acc.writer.close()
        with contextlib.suppress(Exception):
            await self.acc.writer.wait_closed()
        # every nonce the controller used under this key is distinct
        assert len(set(self.acc.seen_nonces)) == len(self.acc.seen_nonces)
        assert self.acc.seen_nonces == list(range(len(self.acc.seen_nonces)))

    def request(self, size: int) -> tuple[asyncio.Task, bytes]:
        payload = os.urandom(size)
        task = asyncio.ensure_future(self.protocol.send_bytes(payload))
        self.tasks.append(task)
        return task, payload

    async def assert_dead(self) -> None:
        """After a fault: connection reported lost, nothing more is sent or accepted."""
        await until(lambda: self.transport.is_closing())
        await until(lambda: len(self.stub.lost) == 1)
        events_before = list(self.stub.events)
        # a late genuine frame must not be accepted any more
        await self.acc.write(self.acc.frame(event(b"late")))
        # and the controller refuses to use the session keys for another request
        try:
            await self.protocol.send_bytes(b"x" * 1500)
        except AccessoryDisconnectedError:
            pass
        else:
            raise AssertionError("request on a dead session did not fail")
        await self.acc.expect_silence_then_eof()
        await asyncio.sleep(0.01)
        assert self.stub.events == events_before
        assert len(self.stub.lost) == 1


class Server:
    async def __aenter__(self) -> Server:
        self.accepted: asyncio.Queue = asyncio.Queue()
        self._server = await asyncio.start_server(self._on_client, "127.0.0.1", 0)
        self.port = self._server.sockets[0].getsockname()[1]
        return self

    async def _on_client(self, reader, writer) -> None:
        await self.accepted.put((reader, writer))

    async def __aexit__(self, *exc) -> None:
        self._server.close()
        await self._server.wait_closed()


# ---------------------------------------------------------------------------------
# scripted scenarios
# ---------------------------------------------------------------------------------


async def scenario_fault_free(server: Server, rng: random.Random) -> None:
    """Requests of many sizes, responses/events cut and coalesced in many ways."""
    async with Session(server) as s:
        seq = 0
        expected_events: list[bytes] = []
        sizes = [1, 2, 1023, 1024, 1025, 2047, 2048, 2049, 5000, 37]
        for idx, size in enumerate(sizes):
            task, payload = s.request(size)
            assert await s.acc.read_plain(size) == payload
            body = body_for(seq, rng.choice([0, 12, 900, 1024, 1500, 4000]), rng)
            seq += 1
            ev_before = body_for(seq, rng.choice([12, 1300]), rng)
            seq += 1
            ev_after = body_for(seq, 20, rng)
            seq += 1
            resp = chunked_response(body, rng) if idx % 3 == 2 else response(body)
            wire = b"".join(s.acc.frames(event(ev_before)) + s.acc.frames(resp) + s.acc.frames(event(ev_after)))
            expected_events += [ev_before, ev_after]
            mode = idx % 4
            if mode == 0:
                cuts = []  # everything in one segment
            elif mode == 1:
                cuts = list(range(7, len(wire), 7)) if len(wire) < 400 else list(range(211, len(wire), 211))
            elif mode == 2:
                cuts = [1, 2, 3, 17, 18, len(wire) - 16, len(wire) - 1]  # inside length prefix and tag
            else:
                cuts = sorted(rng.sample(range(1, len(wire)), 5))
            await s.acc.write(wire, cuts)
            got = await asyncio.wait_for(task, 5)
            assert bytes(got.body) == body, (idx, len(got.body), len(body))
            await until(lambda: len(s.stub.events) == len(expected_events))
            assert s.stub.events == expected_events

        # pipelined requests: nonces of the two requests do not overlap and
        # the responses are matched in order
        t1, p1 = s.request(1500)
        t2, p2 = s.request(3000)
        assert await s.acc.read_plain(4500) == p1 + p2
        b1, b2 = body_for(seq, 1100, rng), body_for(seq + 1, 10, rng)
        await s.acc.write(b"".join(s.acc.frames(response(b1)) + s.acc.frames(response(b2))))
        assert bytes((await asyncio.wait_for(t1, 5)).body) == b1
        assert bytes((await asyncio.wait_for(t2, 5)).body) == b2
        assert s.stub.events == expected_events
        assert s.stub.lost == []
        assert len(s.acc.seen_nonces) == sum(-(-n // 1024) for n in sizes) + 2 + 3


async def scenario_bad_frame(server: Server, rng: random.Random, kind: str, coalesce: bool) -> None:
    """good exchange, then request + [good event, BAD, good event, good response]."""
    async with Session(server) as s:
        task, payload = s.request(1200)
        assert await s.acc.read_plain(1200) == payload
        await s.acc.write(b"".join(s.acc.frames(event(b"ev0")) + s.acc.frames(response(b"r0" * 700))))
        assert bytes((await asyncio.wait_for(task, 5)).body) == b"r0" * 700
        assert s.stub.events == [b"ev0"]

        task, payload = s.request(2500)
        assert await s.acc.read_plain(2500) == payload
        good1 = s.acc.frame(event(b"ev1"))
        if kind == "replay_event":
            bad = s.acc.sent_frames[0]
        elif kind == "replay_last":
            bad = good1
        elif kind == "replay_response_part":
            bad = s.acc.sent_frames[1]
        elif kind == "future":
            bad = s.acc.frame(event(b"future"), counter=s.acc.send_counter + rng.randint(1, 3))
        elif kind == "dropped":
            s.acc.frame(event(b"dropped"))  # made, counted, never sent
            bad = s.acc.frame(event(b"after-drop"))
        elif kind == "flip_ciphertext":
            genuine = bytearray(s.acc.frame(event(b"flipped")))
            genuine[2 + rng.randrange(len(genuine) - 18)] ^= 1 << rng.randrange(8)
            bad = bytes(genuine)
        elif kind == "flip_tag":
            genuine = bytearray(s.acc.frame(event(b"flipped")))
            genuine[-1 - rng.randrange(16)] ^= 1 << rng.randrange(8)
            bad = bytes(genuine)
        elif kind == "short_length":
            genuine = bytearray(s.acc.frame(event(b"flipped")))
            genuine[0:2] = struct.pack("<H", struct.unpack("<H", genuine[0:2])[0] - 1)
            bad = bytes(genuine)
        else:
            raise AssertionError(kind)
        good2 = s.acc.frame(event(b"ev2"), counter=s.acc.send_counter)  # what an in-sync peer would send next
        resp = b"".join(s.acc.frames(response(b"r1")))
        if coalesce:
            await s.acc.write(good1 + bad + good2 + resp)
        else:
            await s.acc.write(good1 + bad + good2 + resp, [len(good1), len(good1) + len(bad)])

        try:
            await asyncio.wait_for(task, 5)
        except AccessoryDisconnectedError:
            pass
        else:
            raise AssertionError(f"{kind}: request survived a bad frame")
        # ev1 was genuine and in order: accepted exactly once. Nothing else.
        assert s.stub.events == [b"ev0", b"ev1"], (kind, s.stub.events)
        await s.assert_dead()
        assert s.stub.events == [b"ev0", b"ev1"], (kind, s.stub.events)


async def scenario_cancel(server: Server, rng: random.Random, partial_response: bool) -> None:
    async with Session(server) as s:
        task, payload = s.request(3000)
        assert await s.acc.read_plain(3000) == payload
        frames = s.acc.frames(response(b"z" * 2000))
        assert len(frames) == 2
        if partial_response:
            await s.acc.write(frames[0])
            await until(lambda: s.protocol.current_response.code == 200)
        task.cancel()
        try:
            await task
        except asyncio.CancelledError:
            pass
        else:
            raise AssertionError("cancelled request completed")
        await s.acc.write(b"".join(frames[1:] if partial_response else frames))
        await s.assert_dead()
        assert s.stub.events == []


async def scenario_timeout(server: Server, rng: random.Random) -> None:
    async with Session(server) as s:
        t1, p1 = s.request(100)
        t2, p2 = s.request(1100)
        assert await s.acc.read_plain(1200) == p1 + p2
        # The 30 s timer of the first request fires (done by hand, the real
        # timer calls exactly this with exactly this argument).
        s.protocol._handle_timeout(s.protocol.result_cbs[0])
        for task in (t1, t2):
            try:
                await asyncio.wait_for(task, 5)
            except AccessoryDisconnectedError:
                pass
            else:
                raise AssertionError("request survived a timeout")
        await s.assert_dead()


# ---------------------------------------------------------------------------------
# random histories against a model
# ---------------------------------------------------------------------------------


async def scenario_random(server: Server, seed: int) -> None:
    rng = random.Random(seed)
    async with Session(server) as s:
        alive = True
        pending: list[asyncio.Task] = []
        expected_events: list[bytes] = []
        seq = 0

        async def fail_all() -> None:
            nonlocal alive
            alive = False
            for task in pending:
                try:
                    await asyncio.wait_for(task, 5)
                except (AccessoryDisconnectedError, asyncio.CancelledError):
                    pass
                else:
                    raise AssertionError(f"seed {seed}: request survived a fault")
            pending.clear()

        for _step in range(rng.randint(4, 14)):
            op = rng.choice(["request", "request", "genuine", "genuine", "genuine", "replay", "future", "corrupt", "cancel", "timeout"])
            if not alive:
                break
            if op == "request":
                size = rng.choice([1, 500, 1024, 1025, 2600])
                task, payload = s.request(size)
                assert await s.acc.read_plain(size) == payload
                pending.append(task)
            elif op == "genuine":
                parts = []
                for _ in range(rng.randint(0, 2)):
                    ev = body_for(seq, rng.choice([15, 1500]), rng)
                    seq += 1
                    expected_events.append(ev)
                    parts += s.acc.frames(event(ev))
                body = None
                if pending:
                    body = body_for(seq, rng.choice([0, 15, 1024, 2500]), rng)
                    seq += 1
                    parts += s.acc.frames(response(body))
                if not parts:
                    continue
                wire = b"".join(parts)
                cuts = sorted(rng.sample(range(1, len(wire)), min(rng.randint(0, 4), len(wire) - 1)))
                await s.acc.write(wire, cuts)
                if body is not None:
                    got = await asyncio.wait_for(pending.pop(0), 5)
                    assert bytes(got.body) == body
                await until(lambda: len(s.stub.events) >= len(expected_events))
                assert s.stub.events == expected_events
            elif op in ("replay", "future", "corrupt"):
                if op == "replay" and not s.acc.sent_frames:
                    continue
                wire = b""
                if rng.random() < 0.5:
                    # a genuine, in-order frame right in front of the bad one
                    ev = body_for(seq, 15, rng)
                    seq += 1
                    expected_events.append(ev)
                    wire += s.acc.frame(event(ev))
                if op == "replay":
                    bad = rng.choice(s.acc.sent_frames)
                elif op == "future":
                    bad = s.acc.frame(event(b"future"), counter=s.acc.send_counter + rng.randint(1, 5))
                else:
                    genuine = bytearray(s.acc.frame(event(b"corrupt")))
                    genuine[2 + rng.randrange(len(genuine) - 2)] ^= 1 << rng.randrange(8)
                    bad = bytes(genuine)
                wire += bad + s.acc.frame(event(b"after-bad"), counter=s.acc.send_counter)
                cuts = sorted(rng.sample(range(1, len(wire)), rng.randint(0, 3)))
                await s.acc.write(wire, cuts)
                await until(lambda: len(s.stub.lost) == 1)
                await fail_all()
            elif op == "cancel":
                if not pending:
                    continue
                victim = rng.choice(pending)
                victim.cancel()
                await fail_all()
            elif op == "timeout":
                if not pending:
                    continue
                s.protocol._handle_timeout(s.protocol.result_cbs[0])
                await fail_all()

        if not alive:
            await s.assert_dead()
        assert s.stub.events == expected_events, (seed, s.stub.events, expected_events)


# ---------------------------------------------------------------------------------


async def main() -> None:
    loop = asyncio.get_running_loop()
    complaints: list[dict] = []
    # asyncio reports the RuntimeError of a refused frame here before it drops
    # the connection; keep the output readable
    loop.set_exception_handler(lambda _loop, ctx: complaints.append(ctx))

    batched = hasattr(ipconn, "UNPACK_UNSIGNED_SHORT_LITTLE_FROM")
    print(f"aiohomekit from {aiohomekit.__file__}; variant: {'k06a change applied' if batched else 'unmodified'}")

    rng = random.Random(606)
    count = 0
    async with Server() as server:
        await scenario_fault_free(server, rng)
        count += 1
        for kind in (
            "replay_event",
            "replay_last",
            "replay_response_part",
            "future",
            "dropped",
            "flip_ciphertext",
            "flip_tag",
            "short_length",
        ):
            for coalesce in (True, False):
                await scenario_bad_frame(server, rng, kind, coalesce)
                count += 1
        for partial in (False, True):
            await scenario_cancel(server, rng, partial)
            count += 1
        await scenario_timeout(server, rng)
        count += 1
        for seed in range(60):
            await scenario_random(server, seed)
            count += 1

    for ctx in complaints:
        exc = ctx.get("exception")
        assert isinstance(exc, RuntimeError) and str(exc) == "Could not decrypt block", ctx
    print(f"OK: {count} sessions, {len(complaints)} frames refused (each closed its connection)")


def test_demo_k06a() -> None:
    asyncio.run(main())


if __name__ == "__main__":
    asyncio.run(main())
    sys.exit(0)
