#!/usr/bin/env python
"""
demo_k09a.py - demonstration for the property-preserving change k09a (property C09:
"requests are written byte-for-byte in the canonical iOS form, in a single hand-off").

Everything here is real: the real asyncio event loop, real loopback TCP sockets (127.0.0.1,
::1 and - when the machine has one - its own link-local address with a scope id), the real
aiohomekit HomeKitConnection / Insecure+SecureHomeKitProtocol / IpPairing classes.  The fake
part is the accessory: a byte-recording peer that answers canned replies, can be told to hang,
to close (FIN) or to reset (RST), and that decrypts the HAP session framing itself with the
`cryptography` package (independent of aiohomekit's own wrappers).

The demo is agnostic to HOW the library hands a request to the transport.  It asserts only what
the property states:

  * the bytes of every request equal an independently rendered canonical request
    (request line, Host [IPv6 bracketed, no port], Content-Length, Content-Type, CRLFs, body);
  * JSON bodies equal the compact encoding;
  * read urls carry exactly the requested ids as aid.iid joined by commas (any order);
  * every request is handed to the transport in exactly ONE outermost write()/writelines() call
    (observed by a pass-through spy installed on the real transport object), and on loopback it
    reaches the peer within one socket read;
  * all of that also under reconnects to a different host, concurrent callers, a hanging peer,
    FIN, RST, cancellation, a closing transport, multi-frame encrypted requests.

Mechanics that the property leaves free (write vs writelines, how many chunks, id order) are
printed as "info" lines so that the output shows what differs between the two code versions.

Run:  PYTHONPATH=/tmp/wt/k09a /venv/bin/python /tmp/wt/k09a/demo_k09a.py
"""

from __future__ import annotations

import asyncio
import json
import re
import socket
import struct
import sys

from cryptography.hazmat.primitives.ciphers.aead import ChaCha20Poly1305

import aiohomekit
from aiohomekit.characteristic_cache import CharacteristicCacheMemory
from aiohomekit.controller.ip.connection import HomeKitConnection, SecureHomeKitProtocol
from aiohomekit.controller.ip.pairing import IpPairing
from aiohomekit.exceptions import AccessoryDisconnectedError
from aiohomekit.http import HttpContentTypes
from aiohomekit.protocol.tlv import TLV

JSON_CT = "application/hap+json"
TLV_CT = "application/pairing+tlv8"

CHECKS = 0
INFO: list[str] = []


def check(cond: bool, what: str) -> None:
    global CHECKS
    CHECKS += 1
    if not cond:
        raise AssertionError(what)


def info(line: str) -> None:
    if line not in INFO:
        INFO.append(line)


# --------------------------------------------------------------------------- reference renderers


def canonical(method: str, target: str, host: str, body: bytes | None = None, ctype: str | None = None) -> bytes:
    """The canonical iOS form, written independently of the library."""
    host_value = f"[{host}]" if ":" in host else host
    out = method.encode() + b" " + target.encode("utf-8") + b" HTTP/1.1\r\n"
    out += b"Host: " + host_value.encode() + b"\r\n"
    if body is not None:
        out += b"Content-Length: " + str(len(body)).encode() + b"\r\n"
        out += b"Content-Type: " + ctype.encode() + b"\r\n"
    out += b"\r\n"
    if body is not None:
        out += body
    return out


def compact(obj) -> bytes:
    return json.dumps(obj, separators=(",", ":"), ensure_ascii=False).encode("utf-8")


# --------------------------------------------------------------------------- the fake accessory

ACCESSORIES = {
    "accessories": [
        {
            "aid": aid,
            "services": [
                {
                    "iid": 1,
                    "type": "3E",
                    "characteristics": [
                        {"iid": 2, "type": "23", "perms": ["pr"], "format": "string", "value": f"acc{aid}"},
                    ],
                },
                {
                    "iid": 8,
                    "type": "43",
                    "characteristics": [
                        {"iid": 9, "type": "25", "perms": ["pr", "pw", "ev"], "format": "bool", "value": False},
                        {"iid": 10, "type": "23", "perms": ["pr", "pw", "ev"], "format": "string", "value": "x"},
                        {"iid": 11, "type": "8", "perms": ["pr", "pw", "ev"], "format": "int", "value": 1},
                        {"iid": 12, "type": "11", "perms": ["pw"], "format": "float", "value": 1.5},
                    ],
                },
            ],
        }
        for aid in (1, 2, 10)
    ]
}


class Peer(asyncio.Protocol):
    """One accepted connection of the fake accessory."""

    def __init__(self, accessory: FakeAccessory) -> None:
        self.accessory = accessory
        self.transport: asyncio.Transport | None = None
        self.cipher_in = bytearray()
        self.plain = bytearray()
        self.reads_since_request = 0
        self.c2a: ChaCha20Poly1305 | None = None
        self.a2c: ChaCha20Poly1305 | None = None
        self.c2a_counter = 0
        self.a2c_counter = 0
        self.frames_of_request: list[int] = []
        self.lost = False

    def connection_made(self, transport) -> None:
        self.transport = transport
        self.local_host = transport.get_extra_info("sockname")[0]
        self.accessory.peers.append(self)

    def connection_lost(self, exc) -> None:
        self.lost = True

    def enable_crypto(self, c2a_key: bytes, a2c_key: bytes) -> None:
        self.c2a = ChaCha20Poly1305(c2a_key)
        self.a2c = ChaCha20Poly1305(a2c_key)

    def data_received(self, data: bytes) -> None:
        self.reads_since_request += 1
        if self.c2a is None:
            self.plain += data
        else:
            self.cipher_in += data
            while len(self.cipher_in) >= 2:
                (n,) = struct.unpack("<H", self.cipher_in[:2])
                if len(self.cipher_in) < 2 + n + 16:
                    break
                aad = bytes(self.cipher_in[:2])
                block = bytes(self.cipher_in[2 : 2 + n + 16])
                del self.cipher_in[: 2 + n + 16]
                # raises InvalidTag if a nonce was skipped/reused or the aad is wrong
                self.plain += self.c2a.decrypt(struct.pack("<LQ", 0, self.c2a_counter), block, aad)
                self.c2a_counter += 1
                self.frames_of_request.append(n)
        self._parse()

    def _parse(self) -> None:
        while True:
            end = self.plain.find(b"\r\n\r\n")
            if end < 0:
                return
            head = bytes(self.plain[: end + 4])
            m = re.search(rb"\r\nContent-Length: (\d+)\r\n", head)
            n = int(m.group(1)) if m else 0
            if len(self.plain) < end + 4 + n:
                return
            raw = bytes(self.plain[: end + 4 + n])
            del self.plain[: end + 4 + n]
            record = {
                "peer": self,
                "raw": raw,
                "reads": self.reads_since_request,
                "frames": self.frames_of_request,
                "host": self.local_host,
            }
            self.reads_since_request = 0
            self.frames_of_request = []
            self.accessory.requests.append(record)
            self.accessory.respond(self, raw)

    def send(self, data: bytes) -> None:
        if self.a2c is None:
            self.transport.write(data)
            return
        out = bytearray()
        for off in range(0, len(data), 1024):
            chunk = data[off : off + 1024]
            aad = struct.pack("<H", len(chunk))
            out += aad + self.a2c.encrypt(struct.pack("<LQ", 0, self.a2c_counter), chunk, aad)
            self.a2c_counter += 1
        self.transport.write(bytes(out))


class FakeAccessory:
    def __init__(self) -> None:
        self.requests: list[dict] = []
        self.peers: list[Peer] = []
        self.mode = "answer"  # "answer" | "hang" | "rst"
        self.servers: dict[str, asyncio.AbstractServer] = {}
        self.port: int | None = None

    async def listen(self, host: str) -> None:
        loop = asyncio.get_running_loop()
        server = await loop.create_server(lambda: Peer(self), host, self.port or 0)
        self.port = server.sockets[0].getsockname()[1]
        self.servers[host] = server

    async def close(self) -> None:
        for server in self.servers.values():
            server.close()
        for peer in self.peers:
            if not peer.lost:
                peer.transport.abort()
        await asyncio.sleep(0.05)

    def respond(self, peer: Peer, raw: bytes) -> None:
        if self.mode == "hang":
            return
        if self.mode == "rst":
            peer.transport.abort()
            return
        line = raw.split(b"\r\n", 1)[0].decode("utf-8")
        method, target, _ = line.split(" ", 2)
        if method == "GET" and target == "/accessories":
            self._reply(peer, 200, "OK", JSON_CT, compact(ACCESSORIES))
        elif method == "GET" and target.startswith("/characteristics?id="):
            rows = []
            for item in target.split("=", 1)[1].split(","):
                aid, iid = item.split(".")
                rows.append({"aid": int(aid), "iid": int(iid), "value": 1})
            self._reply(peer, 200, "OK", JSON_CT, compact({"characteristics": rows}))
        elif method == "PUT":
            peer.send(b"HTTP/1.1 204 No Content\r\n\r\n")
        elif method == "POST" and b"\r\nContent-Type: application/pairing+tlv8\r\n" in raw:
            self._reply(peer, 200, "OK", TLV_CT, TLV.encode_list([(6, b"\x02")]))
        else:
            self._reply(peer, 200, "OK", JSON_CT, b"{}")

    @staticmethod
    def _reply(peer: Peer, code: int, reason: str, ctype: str, body: bytes) -> None:
        peer.send(
            f"HTTP/1.1 {code} {reason}\r\nContent-Type: {ctype}\r\nContent-Length: {len(body)}\r\n\r\n".encode() + body
        )


# --------------------------------------------------------------------------- transport spy


class Spy:
    """Pass-through recorder of the outermost write()/writelines() calls on a real transport."""

    def __init__(self, transport) -> None:
        self.calls: list[tuple[str, bytes, int]] = []
        self._depth = 0
        orig_write, orig_writelines = transport.write, transport.writelines

        def write(data):
            if self._depth == 0:
                self.calls.append(("write", bytes(data), 1))
            self._depth += 1
            try:
                return orig_write(data)
            finally:
                self._depth -= 1

        def writelines(chunks):
            chunks = list(chunks)
            if self._depth == 0:
                self.calls.append(("writelines", b"".join(bytes(c) for c in chunks), len(chunks)))
            self._depth += 1
            try:
                return orig_writelines(chunks)
            finally:
                self._depth -= 1

        transport.write = write
        transport.writelines = writelines
        transport._k09a_spy = self


async def wait_for(predicate, what: str, timeout: float = 10.0) -> None:
    deadline = asyncio.get_running_loop().time() + timeout
    while not predicate():
        if asyncio.get_running_loop().time() > deadline:
            raise AssertionError(f"timed out waiting for {what}")
        await asyncio.sleep(0.005)


async def connected(conn: HomeKitConnection, host: str | None = None, not_transport=None) -> Spy:
    """Wait until conn is connected (to host, on another transport than not_transport); spy on it."""

    def ok() -> bool:
        if not conn.is_connected or conn.transport is not_transport:
            return False
        return host is None or conn.connected_host == host

    if not ok():
        try:
            await asyncio.wait_for(conn.ensure_connection(), 10)
        except Exception:
            pass
    await wait_for(ok, f"connection to {host or conn.hosts}")
    spy = getattr(conn.transport, "_k09a_spy", None)
    return spy or Spy(conn.transport)


def check_handoff(spy: Spy, before: int, expected_payloads: list[bytes], label: str) -> None:
    """Exactly one outermost hand-off per request, each carrying exactly that request."""
    new = spy.calls[before:]
    check(len(new) == len(expected_payloads), f"{label}: {len(new)} hand-offs for {len(expected_payloads)} requests")
    for (name, data, nchunks), exp in zip(new, expected_payloads):
        check(data == exp, f"{label}: handed-off bytes differ from the request: {data!r} != {exp!r}")
        info(f"{label.split(':')[0]}: transport.{name}() with {nchunks if nchunks < 3 else 'several'} chunk(s)")


# --------------------------------------------------------------------------- scenarios


async def scenario_rendering(acc: FakeAccessory) -> None:
    """S1: methods x targets x bodies on a plain connection; exact bytes; one hand-off; one read."""
    conn = HomeKitConnection(None, ["127.0.0.1"], acc.port)
    spy = await connected(conn, "127.0.0.1")
    nested = {"a": [1, 2.5, True, None, {"b": "häuschen ☃", "c": []}], "d": {"e": {"f": [[], {}]}}, "g": -0.25}
    big = {"characteristics": [{"aid": 1, "iid": i, "value": "v" * 40} for i in range(300)]}
    tlv = TLV.encode_list([(6, b"\x01"), (3, b"\xaa" * 300)])
    cases = [
        (conn.get("/accessories"), canonical("GET", "/accessories", "127.0.0.1")),
        (conn.get("/characteristics?id=1.9,2.10"), canonical("GET", "/characteristics?id=1.9,2.10", "127.0.0.1")),
        (conn.get_json("/characteristics?id=1.9"), canonical("GET", "/characteristics?id=1.9", "127.0.0.1")),
        (conn.request("get", "/lower"), canonical("GET", "/lower", "127.0.0.1")),
        (conn.get("/ünï?x=☃"), canonical("GET", "/ünï?x=☃", "127.0.0.1")),
        (
            conn.put("/characteristics", b'{"x":1}'),
            canonical("PUT", "/characteristics", "127.0.0.1", b'{"x":1}', JSON_CT),
        ),
        (conn.put_json("/characteristics", nested), canonical("PUT", "/characteristics", "127.0.0.1", compact(nested), JSON_CT)),
        (conn.put_json("/characteristics", big), canonical("PUT", "/characteristics", "127.0.0.1", compact(big), JSON_CT)),
        (conn.put_json("/characteristics", []), canonical("PUT", "/characteristics", "127.0.0.1", b"[]", JSON_CT)),
        (conn.post("/pair-verify", tlv), canonical("POST", "/pair-verify", "127.0.0.1", tlv, TLV_CT)),
        (conn.post_tlv("/pairings", [(6, b"\x01"), (0, b"\x05")]), canonical("POST", "/pairings", "127.0.0.1", TLV.encode_list([(6, b"\x01"), (0, b"\x05")]), TLV_CT)),
        (conn.post_json("/resource", {"resource-type": "image", "image-width": 640}), canonical("POST", "/resource", "127.0.0.1", compact({"resource-type": "image", "image-width": 640}), JSON_CT)),
        (conn.post("/bin", bytes(range(256)) * 5, content_type=HttpContentTypes.JSON), canonical("POST", "/bin", "127.0.0.1", bytes(range(256)) * 5, JSON_CT)),
    ]
    for coro, expected in cases:
        n_req, n_calls = len(acc.requests), len(spy.calls)
        await coro
        check(len(acc.requests) == n_req + 1, "S1: exactly one request reached the peer")
        rec = acc.requests[-1]
        check(rec["raw"] == expected, f"S1: wire bytes differ:\n got {rec['raw']!r}\n exp {expected!r}")
        check_handoff(spy, n_calls, [expected], "S1 insecure")
        if len(expected) <= 32768:
            check(rec["reads"] == 1, f"S1: request needed {rec['reads']} socket reads at the peer")

    # A request with an empty body: only what both readings of the property agree on is checked.
    n_req, n_calls = len(acc.requests), len(spy.calls)
    await conn.post("/empty", b"")
    raw = acc.requests[-1]["raw"]
    check(len(acc.requests) == n_req + 1 and len(spy.calls) == n_calls + 1, "S1: empty body: one request, one hand-off")
    check(raw.startswith(b"POST /empty HTTP/1.1\r\nHost: 127.0.0.1\r\n"), "S1: empty body: head")
    check(raw.endswith(b"\r\n\r\n") and raw.count(b"\r\n\r\n") == 1, "S1: empty body: nothing after the blank line")
    check(b"\n" not in raw.replace(b"\r\n", b""), "S1: empty body: bare LF")

    # Not connected: nothing may be written at all.
    await conn.close()
    n_calls = len(spy.calls)
    try:
        await conn.get("/accessories")
        check(False, "S1: request on a closed connection did not fail")
    except AccessoryDisconnectedError:
        pass
    check(len(spy.calls) == n_calls, "S1: bytes were written on a closed connection")


async def scenario_hosts(acc: FakeAccessory, scoped: str | None) -> None:
    """S2: Host header per connected host, and after the same connection object moved to another host."""
    hosts = ["127.0.0.1", "::1"] + ([scoped] if scoped else [])
    # fresh connection per host
    for host in hosts:
        conn = HomeKitConnection(None, [host], acc.port)
        spy = await connected(conn)
        n_calls = len(spy.calls)
        await conn.put_json("/characteristics", {"characteristics": [{"aid": 1, "iid": 9, "ev": True}]})
        rec = acc.requests[-1]
        body = b'{"characteristics":[{"aid":1,"iid":9,"ev":true}]}'
        expected = canonical("PUT", "/characteristics", rec["host"], body, JSON_CT)
        check(rec["raw"] == expected, f"S2: {host}: {rec['raw']!r} != {expected!r}")
        check_handoff(spy, n_calls, [expected], "S2 insecure")
        if "%" in host:
            # CPython's getpeername() reports the scope id separately, so on a real socket the
            # literal comes back without the zone.  Emulate a platform that spells the zone by
            # storing what _connect_once would have stored for such a spelling.
            check(f"Host: [{rec['host']}]\r\n".encode() in rec["raw"], "S2: link-local literal")
            conn.connected_host = host
            conn.host_header = f"Host: [{host}]"
            n_calls = len(spy.calls)
            await conn.get("/accessories")
            expected = canonical("GET", "/accessories", host)
            check(acc.requests[-1]["raw"] == expected, f"S2: scoped literal: {acc.requests[-1]['raw']!r}")
            check_handoff(spy, n_calls, [expected], "S2 insecure")
        await conn.close()

    # one connection object that reconnects to a different host each time the peer goes away
    conn = HomeKitConnection(None, [hosts[0]], acc.port)
    spy = await connected(conn)
    sequence = hosts[1:] + hosts + hosts[::-1]
    await conn.get("/accessories")
    check(acc.requests[-1]["raw"] == canonical("GET", "/accessories", acc.requests[-1]["host"]), "S2: first host")
    for i, host in enumerate(sequence):
        old_transport = conn.transport
        conn.hosts = [host]  # what SecureHomeKitConnection does when zeroconf reports new addresses
        peer = acc.requests[-1]["peer"]
        if i % 2:
            peer.transport.abort()  # RST
        else:
            peer.transport.close()  # FIN
        spy = await connected(conn, not_transport=old_transport)
        for target in ("/accessories", f"/characteristics?id=1.{i}"):
            n_calls = len(spy.calls)
            await conn.get(target)
            rec = acc.requests[-1]
            check(rec["peer"] is not peer, "S2: request went to the new connection")
            expected = canonical("GET", target, rec["host"])
            check(rec["raw"] == expected, f"S2: after move to {host}: {rec['raw']!r} != {expected!r}")
            check_handoff(spy, n_calls, [expected], "S2 insecure")
    await conn.close()


async def scenario_concurrency(acc: FakeAccessory) -> None:
    """S3: many callers at once; serialised (limit 1) and pipelined (limit 4)."""
    for limit in (1, 4):
        conn = HomeKitConnection(None, ["::1"], acc.port, concurrency_limit=limit)
        spy = await connected(conn)
        n_req, n_calls = len(acc.requests), len(spy.calls)
        bodies = [{"characteristics": [{"aid": 1, "iid": i, "value": "x" * (i * 37)}]} for i in range(12)]
        coros = []
        expected = []
        for i, body in enumerate(bodies):
            if i % 3 == 0:
                coros.append(conn.get(f"/characteristics?id=1.{i}"))
                expected.append(canonical("GET", f"/characteristics?id=1.{i}", "::1"))
            else:
                coros.append(conn.put_json("/characteristics", body))
                expected.append(canonical("PUT", "/characteristics", "::1", compact(body), JSON_CT))
        await asyncio.gather(*coros)
        got = [r["raw"] for r in acc.requests[n_req:]]
        check(got == expected, f"S3: limit {limit}: requests differ or were interleaved")
        check_handoff(spy, n_calls, expected, "S3 insecure")
        await conn.close()


async def scenario_faults(acc: FakeAccessory) -> None:
    """S4: hanging peer then FIN, RST on receipt, cancellation; always whole requests, then a clean next one."""
    conn = HomeKitConnection(None, ["127.0.0.1"], acc.port)
    spy = await connected(conn)
    body = {"characteristics": [{"aid": 1, "iid": 9, "value": True}]}
    expected = canonical("PUT", "/characteristics", "127.0.0.1", compact(body), JSON_CT)

    for fault in ("fin", "rst", "cancel", "fin-two-queued"):
        old_transport = conn.transport
        n_req, n_calls = len(acc.requests), len(spy.calls)
        acc.mode = "rst" if fault == "rst" else "hang"
        tasks = [asyncio.ensure_future(conn.put_json("/characteristics", body))]
        if fault == "fin-two-queued":
            # a second caller queued behind the first on the concurrency limit
            tasks.append(asyncio.ensure_future(conn.put_json("/characteristics", body)))
        await wait_for(lambda: len(acc.requests) > n_req, "request to reach the peer")
        if fault.startswith("fin"):
            acc.requests[-1]["peer"].transport.close()
        elif fault == "cancel":
            tasks[0].cancel()
        results = await asyncio.gather(*tasks, return_exceptions=True)
        for res in results:
            if fault == "cancel":
                check(isinstance(res, asyncio.CancelledError), f"S4 {fault}: {res!r}")
            else:
                check(isinstance(res, AccessoryDisconnectedError), f"S4 {fault}: {res!r}")
        await asyncio.sleep(0.05)
        # whatever happened, the peer only ever saw whole canonical requests and no stray bytes
        seen = acc.requests[n_req:]
        check(1 <= len(seen) <= len(tasks), f"S4 {fault}: peer saw {len(seen)} requests")
        for rec in seen:
            check(rec["raw"] == expected, f"S4 {fault}: {rec['raw']!r}")
            check(rec["reads"] == 1, f"S4 {fault}: request needed {rec['reads']} reads")
            check(not rec["peer"].plain, f"S4 {fault}: stray bytes {bytes(rec['peer'].plain)!r}")
        old_calls = spy.calls[n_calls:]
        check(all(data == expected for _, data, _ in old_calls), f"S4 {fault}: a hand-off was not a whole request")
        check(len(old_calls) <= len(tasks), f"S4 {fault}: more hand-offs than requests")
        # the connection comes back and the next request is canonical again
        acc.mode = "answer"
        spy = await connected(conn, not_transport=old_transport)
        n_calls = len(spy.calls)
        await conn.get("/characteristics?id=1.9")
        exp_get = canonical("GET", "/characteristics?id=1.9", "127.0.0.1")
        check(acc.requests[-1]["raw"] == exp_get, f"S4 {fault}: request after recovery")
        check_handoff(spy, n_calls, [exp_get], "S4 insecure")
    await conn.close()


async def scenario_secure(acc: FakeAccessory) -> None:
    """S5: the encrypted session: frames of <= 1024 bytes, nonces in sequence, one hand-off per request."""
    c2a_key, a2c_key = bytes(range(32)), bytes(range(32, 64))
    conn = HomeKitConnection(None, ["::1"], acc.port)
    spy = await connected(conn)
    await conn.get("/accessories")  # plain, so that we know which peer object serves us
    peer = acc.requests[-1]["peer"]
    # exactly what SecureHomeKitConnection._connect_once does once pair-verify has produced the keys
    conn.protocol = SecureHomeKitProtocol(conn, a2c_key, c2a_key)
    conn.transport.set_protocol(conn.protocol)
    conn.protocol.connection_made(conn.transport)
    conn.is_secure = True
    peer.enable_crypto(c2a_key, a2c_key)

    def body_for_total(total: int) -> bytes:
        """A JSON body that makes the complete PUT request exactly `total` bytes long."""
        for pad in range(total):
            body = compact({"characteristics": [{"aid": 1, "iid": 9, "value": "p" * pad}]})
            n = len(canonical("PUT", "/characteristics", "::1", body, JSON_CT))
            if n == total:
                return body
            if n > total:
                break
        raise AssertionError(f"cannot build a request of {total} bytes")

    async def one(coro, expected: bytes) -> None:
        n_req, n_calls = len(acc.requests), len(spy.calls)
        await coro
        check(len(acc.requests) == n_req + 1, "S5: exactly one request reached the peer")
        rec = acc.requests[-1]
        check(rec["raw"] == expected, f"S5: decrypted bytes differ: {rec['raw'][:80]!r}...")
        sizes = rec["frames"]
        check(sum(sizes) == len(expected), "S5: frame sizes")
        check(all(s == 1024 for s in sizes[:-1]) and 0 < sizes[-1] <= 1024, f"S5: frame sizes {sizes}")
        new = spy.calls[n_calls:]
        check(len(new) == 1, f"S5: {len(new)} hand-offs for one request")
        name, data, nchunks = new[0]
        check(len(data) == len(expected) + 18 * len(sizes), "S5: handed-off length = plaintext + 18 per frame")
        check(rec["reads"] == 1, f"S5: request needed {rec['reads']} socket reads at the peer")
        info(f"S5 secure: transport.{name}() with {'1 chunk' if nchunks == 1 else '2 chunks per frame' if nchunks == 2 * len(sizes) else str(nchunks) + ' chunks'}")

    await one(conn.get("/accessories"), canonical("GET", "/accessories", "::1"))
    for total in (1023, 1024, 1025, 2048, 3000, 4096, 9000):
        body = body_for_total(total)
        await one(conn.put("/characteristics", body), canonical("PUT", "/characteristics", "::1", body, JSON_CT))
    big = {"characteristics": [{"aid": 1, "iid": i, "value": "ß" * 20} for i in range(400)]}
    await one(conn.put_json("/characteristics", big), canonical("PUT", "/characteristics", "::1", compact(big), JSON_CT))

    # several callers at once on the encrypted session (nonces must stay in hand-off order)
    n_req, n_calls = len(acc.requests), len(spy.calls)
    bodies = [body_for_total(900 + 700 * i) for i in range(6)]
    await asyncio.gather(*(conn.put("/characteristics", b) for b in bodies))
    got = [r["raw"] for r in acc.requests[n_req:]]
    check(got == [canonical("PUT", "/characteristics", "::1", b, JSON_CT) for b in bodies], "S5: concurrent")
    check(len(spy.calls) - n_calls == len(bodies), "S5: concurrent: one hand-off per request")

    # fault: the peer hangs and goes away while a 3-frame request is outstanding
    acc.mode = "hang"
    n_req, n_calls = len(acc.requests), len(spy.calls)
    body = body_for_total(2500)
    task = asyncio.ensure_future(conn.put("/characteristics", body))
    await wait_for(lambda: len(acc.requests) > n_req, "encrypted request to reach the peer")
    check(acc.requests[-1]["raw"] == canonical("PUT", "/characteristics", "::1", body, JSON_CT), "S5: hang")
    check(len(spy.calls) == n_calls + 1, "S5: hang: one hand-off")
    # transport closing: the request must fail without a single byte being handed over
    conn.transport.close()
    n_calls = len(spy.calls)
    try:
        await conn.get("/accessories")
        check(False, "S5: request on a closing transport did not fail")
    except AccessoryDisconnectedError:
        pass
    check(len(spy.calls) == n_calls, "S5: bytes handed to a closing transport")
    res = (await asyncio.gather(task, return_exceptions=True))[0]
    check(isinstance(res, AccessoryDisconnectedError), f"S5: outstanding request: {res!r}")
    check(not peer.plain and not peer.cipher_in, "S5: stray bytes at the peer")
    acc.mode = "answer"
    await conn.close()


class DemoController:
    """The only thing IpPairing needs from its controller here."""

    def __init__(self) -> None:
        self._char_cache = CharacteristicCacheMemory()


async def scenario_pairing_api(acc: FakeAccessory) -> None:
    """S6: ids, write and subscribe payloads as issued through IpPairing."""
    pairing = IpPairing(
        DemoController(),
        {"AccessoryPairingID": "00:00:00:00:00:09", "AccessoryIP": "127.0.0.1", "AccessoryPort": acc.port},
    )
    # A plain (not pair-verified) connection so that the fake accessory can read the requests.
    pairing.connection = HomeKitConnection(pairing, ["127.0.0.1"], acc.port)

    n_req = len(acc.requests)
    await pairing.list_accessories_and_characteristics()
    check(acc.requests[-1]["raw"] == canonical("GET", "/accessories", "127.0.0.1"), "S6: /accessories")
    check(len(acc.requests) == n_req + 1, "S6: one request")
    spy = await connected(pairing.connection)

    id_re = re.compile(r"^\d+\.\d+(,\d+\.\d+)*$")
    id_inputs = [
        [(1, 9)],
        [(1, 9), (1, 10)],
        [(10, 9), (2, 10), (1, 11), (1, 9), (2, 9)],
        {(2, 9), (1, 10), (10, 11)},
        [(1, 9), (1, 9), (2, 9)],  # duplicates collapse
        ((aid, iid) for aid in (10, 1, 2) for iid in (11, 9, 10)),  # any iterable
        {(a, i) for a in range(1, 40) for i in range(1, 4)},  # a long url
    ]
    for ids in id_inputs:
        ids = list(ids) if not isinstance(ids, set) else ids
        n_req, n_calls = len(acc.requests), len(spy.calls)
        result = await pairing.get_characteristics(ids)
        check(len(acc.requests) == n_req + 1, "S6: one request per read")
        raw = acc.requests[-1]["raw"]
        m = re.fullmatch(rb"GET (/characteristics\?id=([^ ]*)) HTTP/1\.1\r\nHost: 127\.0\.0\.1\r\n\r\n", raw)
        check(m is not None, f"S6: read request not canonical: {raw!r}")
        rendered = m.group(2).decode()
        check(id_re.match(rendered) is not None, f"S6: id list {rendered!r}")
        items = rendered.split(",")
        check(len(items) == len(set(items)), "S6: an id was sent twice")
        check(set(items) == {f"{a}.{i}" for a, i in ids}, f"S6: ids sent {items} for {ids}")
        check(set(result) == set(ids), "S6: result keys")
        check_handoff(spy, n_calls, [raw], "S6 insecure")
        if len(items) > 3:
            ascending = items == [f"{a}.{i}" for a, i in sorted(set(ids))]
            info("S6: ids of a long read are sent in " + ("ascending order" if ascending else "some other (set iteration) order"))

    writes = [
        [(1, 9, True)],
        [(1, 9, False), (1, 10, "höt ☃"), (2, 11, 7), (10, 12, 21.5)],
        [(2, 10, {"nested": [1, {"a": None}], "t": True})],
        [(1, 11, 0), (1, 11, 1)],
    ]
    for chars in writes:
        n_req, n_calls = len(acc.requests), len(spy.calls)
        res = await pairing.put_characteristics(chars)
        check(res == {}, "S6: write result")
        body = compact({"characteristics": [{"aid": a, "iid": i, "value": v} for a, i, v in chars]})
        expected = canonical("PUT", "/characteristics", "127.0.0.1", body, JSON_CT)
        check(len(acc.requests) == n_req + 1, "S6: one request per write")
        check(acc.requests[-1]["raw"] == expected, f"S6: write: {acc.requests[-1]['raw']!r} != {expected!r}")
        check_handoff(spy, n_calls, [expected], "S6 insecure")

    subs = [(1, 9), (1, 10), (2, 9), (10, 9), (10, 11)]
    for ev, call in ((True, pairing.subscribe), (False, pairing.unsubscribe)):
        n_req, n_calls = len(acc.requests), len(spy.calls)
        await call(subs)
        expected = []
        for aid in (1, 2, 10):  # one request per aid, like iOS
            rows = [{"aid": a, "iid": i, "ev": ev} for a, i in subs if a == aid]
            expected.append(canonical("PUT", "/characteristics", "127.0.0.1", compact({"characteristics": rows}), JSON_CT))
        got = [r["raw"] for r in acc.requests[n_req:]]
        check(got == expected, f"S6: (un)subscribe: {got!r} != {expected!r}")
        check_handoff(spy, n_calls, expected, "S6 insecure")

    # readers and writers racing through the pairing API
    n_req, n_calls = len(acc.requests), len(spy.calls)
    await asyncio.gather(
        pairing.get_characteristics([(1, 9), (2, 9)]),
        pairing.put_characteristics([(1, 9, True)]),
        pairing.get_characteristics({(10, 11)}),
        pairing.put_characteristics([(2, 10, "z")]),
    )
    got = [r["raw"] for r in acc.requests[n_req:]]
    check(len(got) == 4, "S6: racing: four requests")
    check(got[1] == canonical("PUT", "/characteristics", "127.0.0.1", b'{"characteristics":[{"aid":1,"iid":9,"value":true}]}', JSON_CT), "S6: racing: write 1")
    check(got[2] == canonical("GET", "/characteristics?id=10.11", "127.0.0.1"), "S6: racing: read 2")
    check(got[3] == canonical("PUT", "/characteristics", "127.0.0.1", b'{"characteristics":[{"aid":2,"iid":10,"value":"z"}]}', JSON_CT), "S6: racing: write 2")
    check(got[0] in (canonical("GET", "/characteristics?id=1.9,2.9", "127.0.0.1"), canonical("GET", "/characteristics?id=2.9,1.9", "127.0.0.1")), "S6: racing: read 1")
    check_handoff(spy, n_calls, got, "S6 insecure")
    await pairing.close()


# --------------------------------------------------------------------------- main


def own_link_local() -> str | None:
    """This machine's own link-local IPv6 address with its scope id (local delivery, nothing leaves the host)."""
    try:
        with open("/proc/net/if_inet6") as fh:
            for line in fh:
                hexaddr, _idx, _plen, scope, _flags, ifname = line.split()
                if scope == "20" and ifname != "lo":
                    addr = socket.inet_ntop(socket.AF_INET6, bytes.fromhex(hexaddr))
                    return f"{addr}%{ifname}"
    except OSError:
        pass
    return None


async def main() -> None:
    print("aiohomekit from", aiohomekit.__file__)
    acc = FakeAccessory()
    await acc.listen("127.0.0.1")
    await acc.listen("::1")
    scoped = own_link_local()
    if scoped:
        try:
            await acc.listen(scoped)
        except OSError as ex:
            print(f"note: cannot listen on {scoped} ({ex}); scoped IPv6 case skipped")
            scoped = None
    else:
        print("note: no link-local address on this machine; scoped IPv6 case skipped")

    for scenario, args in (
        (scenario_rendering, ()),
        (scenario_hosts, (scoped,)),
        (scenario_concurrency, ()),
        (scenario_faults, ()),
        (scenario_secure, ()),
        (scenario_pairing_api, ()),
    ):
        before = CHECKS
        await asyncio.wait_for(scenario(acc, *args), 120)
        print(f"ok   {scenario.__name__:24s} {scenario.__doc__.strip().splitlines()[0]}  [{CHECKS - before} checks]")
    await acc.close()
    for line in INFO:
        print("info", line)
    print(f"PASS demo_k09a: {CHECKS} checks, {len(acc.requests)} requests observed on the wire")


def test_demo_k09a() -> None:
    """pytest entry point"""
    asyncio.run(main())


if __name__ == "__main__":
    try:
        asyncio.run(main())
    except AssertionError as ex:
        print("FAIL demo_k09a:", ex)
        sys.exit(1)
