"""
Demonstration for change k07a (property C07: HTTP/EVENT message parsing is
independent of stream segmentation).

Runs the same well-formed message sequences through the library with many
different segmentations and checks that exactly the messages that were sent
come out, in order, with nothing lost or duplicated.  Only public behaviour is
looked at (parse() return values, is_read_completely(), get_http_name(), code,
reason, headers, body, resolved request futures, delivered events), so it must
pass both on the unmodified library and with the k07a patch applied.

Four drivers, all with REAL library objects:

  1. HttpResponse.parse() fed the way data_received feeds it (leftover of a
     finished message goes into a fresh HttpResponse).
  2. InsecureHomeKitProtocol.data_received() on a real event loop with real
     asyncio futures queued as pending requests.
  3. SecureHomeKitProtocol.data_received() with real ChaCha20-Poly1305 frames,
     random frame sizes and random cuts of the cipher text stream.
  4. A real HomeKitConnection talking over a loopback TCP socket to a scripted
     fake accessory that writes the stream in pieces.

Segmentations: every single cut and every pair of cuts for the small streams,
every byte on its own, and seeded random multi-cuts for the larger ones.

Run:  PYTHONPATH=/tmp/wt/k07a /venv/bin/python demo_k07a.py
 or:  PYTHONPATH=/tmp/wt/k07a /venv/bin/python -m pytest -q -p no:cacheprovider demo_k07a.py
"""

from __future__ import annotations

import asyncio
import itertools
import json
import random
import socket
import sys
from dataclasses import dataclass, field

from aiohomekit.controller.ip.connection import (
    PACK_UNSIGNED_SHORT_LITTLE,
    HomeKitConnection,
    InsecureHomeKitProtocol,
    SecureHomeKitProtocol,
)
from aiohomekit.crypto.chacha20poly1305 import PACK_NONCE, ChaCha20Poly1305Encryptor
from aiohomekit.http.response import HttpResponse

# --------------------------------------------------------------------------
# message model
# --------------------------------------------------------------------------


@dataclass
class Msg:
    version: str  # "HTTP/1.1" or "EVENT/1.0"
    code: int
    reason: str
    headers: list[tuple[str, str]]  # raw (name, value-with-padding) as sent, without the framing header
    framing: str  # "length" | "chunked" | "none"
    body: bytes = b""
    chunks: list[int] = field(default_factory=list)  # sizes, sum == len(body)
    framing_name: str = ""  # casing used for the framing header name
    framing_at: int = 0  # index in headers where the framing header is inserted
    upper_hex: bool = False
    pad_hex: int = 0

    def _all_headers(self) -> list[tuple[str, str]]:
        headers = list(self.headers)
        if self.framing == "length":
            headers.insert(self.framing_at, (self.framing_name or "Content-Length", f" {len(self.body)}"))
        elif self.framing == "chunked":
            headers.insert(self.framing_at, (self.framing_name or "Transfer-Encoding", " chunked"))
        return headers

    def wire(self) -> bytes:
        out = bytearray(f"{self.version} {self.code} {self.reason}\r\n".encode())
        for name, value in self._all_headers():
            out += f"{name}:{value}\r\n".encode()
        out += b"\r\n"
        if self.framing == "length":
            out += self.body
        elif self.framing == "chunked":
            at = 0
            for size in self.chunks:
                digits = f"{size:X}" if self.upper_hex else f"{size:x}"
                out += digits.rjust(len(digits) + self.pad_hex, "0").encode() + b"\r\n"
                out += self.body[at : at + size] + b"\r\n"
                at += size
            assert at == len(self.body)
            out += b"0\r\n\r\n"
        else:
            assert not self.body
        return bytes(out)

    def expected(self) -> tuple:
        return (
            self.version.split("/")[0],
            self.version,
            self.code,
            self.reason,
            [(n.strip().title(), v.strip()) for n, v in self._all_headers()],
            self.body,
        )


def snapshot(resp: HttpResponse) -> tuple:
    assert resp.is_read_completely()
    return (
        resp.get_http_name(),
        resp.version,
        resp.code,
        resp.reason,
        [tuple(h) for h in resp.headers],
        bytes(resp.body),
    )


STATUSES = [
    (200, "OK"),
    (204, "No Content"),
    (207, "Multi-Status"),
    (200, ""),
    (470, "Connection Authorization Required"),
    (404, "Not Found"),
    (500, "Internal Server Error"),
]
NASTY = [
    b"\r\n",
    b"\r",
    b"\n",
    b"0\r\n\r\n",
    b"\r\n\r\n",
    b"5\r\nhello\r\n",
    b"HTTP/1.1 200 OK\r\n\r\n",
    b"EVENT/1.0 200 OK\r\nContent-Length: 2\r\n\r\n{}",
    b"Content-Length: 99\r\n",
    b": ",
]
PLAIN_HEADERS = [
    ("Content-Type", " application/hap+json"),
    ("content-type", "application/hap+json"),
    ("CONNECTION", "  keep-alive  "),
    ("Date", " Mon, 04 Jun 2018 20:06:06 GMT"),
    ("Server", " BaseHTTP/0.6 Python/3.5.3"),
    ("x-hap-thing", " a:b:c"),
    ("X-Empty", ""),
    ("X-Empty-2", " "),
]
LENGTH_NAMES = ["Content-Length", "content-length", "CONTENT-LENGTH", "Content-length"]
CHUNKED_NAMES = ["Transfer-Encoding", "transfer-encoding", "TRANSFER-ENCODING", "Transfer-encoding"]


def random_body(rng: random.Random, max_len: int) -> bytes:
    out = bytearray()
    target = rng.choice([0, 1, 2, 3, rng.randrange(max_len + 1), rng.randrange(max_len + 1)])
    while len(out) < target:
        pick = rng.random()
        if pick < 0.3:
            out += rng.choice(NASTY)
        elif pick < 0.6:
            out += bytes(rng.randrange(256) for _ in range(rng.randrange(1, 12)))
        else:
            out += json.dumps({"characteristics": [{"aid": 1, "iid": rng.randrange(99), "value": rng.random()}]}).encode()
    return bytes(out[:target])


def random_msg(rng: random.Random, max_body: int = 300, *, http_only_ok: bool = False, version: str | None = None) -> Msg:
    version = version or rng.choice(["HTTP/1.1", "HTTP/1.1", "EVENT/1.0"])
    code, reason = rng.choice(STATUSES[:4] if http_only_ok else STATUSES)
    headers = rng.sample(PLAIN_HEADERS, rng.randrange(0, 4))
    framing = rng.choice(["length", "length", "chunked", "chunked", "none"])
    body = b"" if framing == "none" else random_body(rng, max_body)
    chunks: list[int] = []
    if framing == "chunked":
        left = len(body)
        while left:
            size = rng.choice([1, 2, 9, 10, 15, 16, 17, left, rng.randrange(1, left + 1)])
            size = min(size, left)
            chunks.append(size)
            left -= size
    names = LENGTH_NAMES if framing == "length" else CHUNKED_NAMES
    return Msg(
        version=version,
        code=code,
        reason=reason,
        headers=headers,
        framing=framing,
        body=body,
        chunks=chunks,
        framing_name=rng.choice(names),
        framing_at=rng.randrange(len(headers) + 1),
        upper_hex=rng.random() < 0.5,
        pad_hex=rng.choice([0, 0, 0, 1, 3]),
    )


def split(stream: bytes, cuts) -> list[bytes]:
    pieces = []
    last = 0
    for cut in sorted(set(cuts)):
        if 0 < cut < len(stream):
            pieces.append(stream[last:cut])
            last = cut
    pieces.append(stream[last:])
    return pieces


def random_cuts(rng: random.Random, length: int) -> list[int]:
    if length < 2:
        return []
    how_many = rng.choice([1, 2, 3, 5, 8, rng.randrange(1, length)])
    return [rng.randrange(1, length) for _ in range(how_many)]


# --------------------------------------------------------------------------
# driver 1: HttpResponse.parse fed like data_received does
# --------------------------------------------------------------------------


def drive_parser(pieces: list[bytes], *, as_bytearray: bool = False) -> list[tuple]:
    out = []
    current = HttpResponse()
    for piece in pieces:
        data = bytearray(piece) if as_bytearray else piece
        while data:
            data = current.parse(data)
            if current.is_read_completely():
                out.append(snapshot(current))
                current = HttpResponse()
            else:
                # an unfinished message keeps its bytes to itself
                assert len(data) == 0
    # nothing may be left over in a half-started message
    assert not current.is_read_completely()
    assert current.version is None and current.code is None
    assert current.headers == [] and current.body == b""
    return out


# --------------------------------------------------------------------------
# driver 2/3: real protocols on a real loop
# --------------------------------------------------------------------------


class RecordingFuture(asyncio.Future):
    """A real asyncio future that notes the moment it is resolved (for global ordering)."""

    log: list

    def set_result(self, result):
        self.log.append(result)
        super().set_result(result)


class StubConnection:
    """Stands in for HomeKitConnection: only collects the events handed over."""

    def __init__(self, log: list) -> None:
        self.log = log
        self.protocol = None

    def event_received(self, event: HttpResponse) -> None:
        self.log.append(event)

    def _connection_lost(self, exc) -> None:  # pragma: no cover
        pass


def _arm(protocol: InsecureHomeKitProtocol, log: list, n_http: int) -> list[RecordingFuture]:
    futures = []
    for _ in range(n_http):
        fut = RecordingFuture(loop=asyncio.get_running_loop())
        fut.log = log
        futures.append(fut)
        protocol.result_cbs.append(fut)
    return futures


def _check_protocol_outcome(protocol, log, futures, msgs) -> None:
    assert [snapshot(r) for r in log] == [m.expected() for m in msgs]
    assert len({id(r) for r in log}) == len(log), "every message must be its own object"
    assert list(protocol.result_cbs) == []
    http = [r for r in log if r.get_http_name() == "HTTP"]
    assert all(f.done() for f in futures)
    assert [f.result() for f in futures] == http
    # the parser waiting for the next message must be untouched
    nxt = protocol.current_response
    assert not nxt.is_read_completely() and nxt.version is None and nxt.headers == [] and nxt.body == b""


def drive_insecure(pieces: list[bytes], msgs: list[Msg]) -> None:
    """Must be called with a running loop."""
    log: list = []
    conn = StubConnection(log)
    protocol = InsecureHomeKitProtocol(conn)
    conn.protocol = protocol
    futures = _arm(protocol, log, sum(1 for m in msgs if m.version.startswith("HTTP")))
    for piece in pieces:
        protocol.data_received(piece)
    _check_protocol_outcome(protocol, log, futures, msgs)


A2C_KEY = bytes(range(32))
C2A_KEY = bytes(range(32, 64))


def encrypt_stream(rng: random.Random, stream: bytes) -> bytes:
    enc = ChaCha20Poly1305Encryptor(A2C_KEY)
    out = bytearray()
    counter = 0
    at = 0
    while at < len(stream):
        size = rng.choice([1, 2, 7, 64, 1024, 1024, rng.randrange(1, 1025)])
        block = stream[at : at + size]
        at += len(block)
        len_bytes = PACK_UNSIGNED_SHORT_LITTLE(len(block))
        out += len_bytes + enc.encrypt(len_bytes, PACK_NONCE(counter), block)
        counter += 1
    return bytes(out)


def drive_secure(rng: random.Random, stream: bytes, msgs: list[Msg]) -> None:
    """Must be called with a running loop."""
    log: list = []
    conn = StubConnection(log)
    protocol = SecureHomeKitProtocol(conn, A2C_KEY, C2A_KEY)
    conn.protocol = protocol
    futures = _arm(protocol, log, sum(1 for m in msgs if m.version.startswith("HTTP")))
    cipher = encrypt_stream(rng, stream)
    for piece in split(cipher, random_cuts(rng, len(cipher))):
        protocol.data_received(piece)
    _check_protocol_outcome(protocol, log, futures, msgs)


# --------------------------------------------------------------------------
# the small streams that get every single and double cut
# --------------------------------------------------------------------------

SMALL_SEQUENCES: list[list[Msg]] = [
    [
        Msg("HTTP/1.1", 204, "No Content", [], "none"),
        Msg("EVENT/1.0", 200, "OK", [], "chunked", b"ab\r\ncd", [2, 4], "transfer-encoding"),
        Msg("HTTP/1.1", 200, "OK", [("a", " b")], "length", b"\r\n0\r\n\r\n", framing_name="CONTENT-LENGTH", framing_at=1),
    ],
    [
        Msg("HTTP/1.1", 207, "Multi-Status", [], "chunked", b"0123456789abcdefX", [16, 1], upper_hex=True, pad_hex=1),
        Msg("HTTP/1.1", 200, "", [], "length", b""),
        Msg("EVENT/1.0", 200, "OK", [], "length", b"{}"),
        Msg("HTTP/1.1", 470, "Connection Authorization Required", [], "none"),
    ],
    [
        Msg("EVENT/1.0", 200, "OK", [("X", " y:z ")], "chunked", b"", []),
        Msg("EVENT/1.0", 200, "OK", [], "chunked", b"\r\n", [1, 1]),
        Msg("HTTP/1.1", 200, "OK", [], "length", b"HTTP/1.1 200 OK\r\n\r\n"),
    ],
]


def all_single_and_double_cuts(length: int):
    for a in range(1, length):
        yield (a,)
    yield from itertools.combinations(range(1, length), 2)


def test_parser_exhaustive_small_streams():
    total = 0
    for msgs in SMALL_SEQUENCES:
        stream = b"".join(m.wire() for m in msgs)
        want = [m.expected() for m in msgs]
        assert drive_parser([stream]) == want
        assert drive_parser([bytes([b]) for b in stream]) == want
        for cuts in all_single_and_double_cuts(len(stream)):
            assert drive_parser(split(stream, cuts), as_bytearray=(total % 2 == 0)) == want, cuts
            total += 1
    print(f"  parser: {total} exhaustive single/double cut segmentations ok")


def test_parser_random_streams():
    rng = random.Random(0xC07)
    total = 0
    for _ in range(400):
        msgs = [random_msg(rng) for _ in range(rng.randrange(1, 7))]
        stream = b"".join(m.wire() for m in msgs)
        want = [m.expected() for m in msgs]
        assert drive_parser([stream]) == want
        assert drive_parser([bytes([b]) for b in stream], as_bytearray=True) == want
        for _ in range(12):
            cuts = random_cuts(rng, len(stream))
            assert drive_parser(split(stream, cuts), as_bytearray=rng.random() < 0.5) == want, cuts
            total += 1
    print(f"  parser: {total} random multi-cut segmentations ok")


def test_parser_leftover_is_exactly_the_tail():
    """parse() hands back precisely the bytes after the finished message - and only then."""
    rng = random.Random(7)
    for _ in range(300):
        first = random_msg(rng, 60)
        tail = random_msg(rng, 60).wire()[: rng.randrange(0, 40)]
        wire = first.wire()
        cut = rng.randrange(0, len(wire))  # first piece never completes the message
        resp = HttpResponse()
        if cut:
            assert len(resp.parse(wire[:cut])) == 0
            assert not resp.is_read_completely()
        left = resp.parse(wire[cut:] + tail)
        assert resp.is_read_completely()
        assert bytes(left) == tail
        assert snapshot(resp) == first.expected()


def test_protocols_on_a_real_loop():
    async def main():
        total = 0
        # exhaustive on the small streams through the plain protocol
        for msgs in SMALL_SEQUENCES:
            stream = b"".join(m.wire() for m in msgs)
            drive_insecure([stream], msgs)
            drive_insecure([bytes([b]) for b in stream], msgs)
            for cuts in all_single_and_double_cuts(len(stream)):
                drive_insecure(split(stream, cuts), msgs)
                total += 1
        print(f"  InsecureHomeKitProtocol: {total} exhaustive segmentations ok")

        rng = random.Random(0x1C07)
        total = 0
        for _ in range(250):
            msgs = [random_msg(rng) for _ in range(rng.randrange(1, 7))]
            stream = b"".join(m.wire() for m in msgs)
            for _ in range(6):
                drive_insecure(split(stream, random_cuts(rng, len(stream))), msgs)
                total += 1
            for _ in range(3):
                drive_secure(rng, stream, msgs)
                total += 1
        # one big one: many 1024 byte frames
        msgs = [random_msg(rng, 6000) for _ in range(6)]
        drive_secure(rng, b"".join(m.wire() for m in msgs), msgs)
        print(f"  Insecure/SecureHomeKitProtocol: {total + 1} random segmentations ok")
        # let the wake-ups scheduled by the resolved futures run
        await asyncio.sleep(0)

    asyncio.run(main())


# --------------------------------------------------------------------------
# driver 4: real HomeKitConnection over a loopback socket
# --------------------------------------------------------------------------


class Owner:
    """Stands in for IpPairing."""

    name = "demo"
    description = None

    def __init__(self, expected_events: int) -> None:
        self.events: list = []
        self.expected_events = expected_events
        self.all_events = asyncio.Event()
        if not expected_events:
            self.all_events.set()

    async def connection_made(self, secure: bool) -> None:
        pass

    def event_received(self, event) -> None:
        self.events.append(event)
        if len(self.events) >= self.expected_events:
            self.all_events.set()


async def loopback_case(rng: random.Random, msgs: list[Msg], pieces: list[bytes]) -> int:
    n_http = sum(1 for m in msgs if m.version.startswith("HTTP"))
    n_event = len(msgs) - n_http

    go = asyncio.Event()  # set once the read counter below is in place

    async def accessory(reader: asyncio.StreamReader, writer: asyncio.StreamWriter) -> None:
        writer.get_extra_info("socket").setsockopt(socket.IPPROTO_TCP, socket.TCP_NODELAY, 1)
        seen = b""
        while seen.count(b"\r\n\r\n") < n_http:
            data = await reader.read(65536)
            if not data:
                break
            seen += data
        await go.wait()
        for piece in pieces:
            writer.write(piece)
            await writer.drain()
            await asyncio.sleep(0.002)
        await reader.read()  # until the controller hangs up
        writer.close()

    server = await asyncio.start_server(accessory, "127.0.0.1", 0)
    port = server.sockets[0].getsockname()[1]
    owner = Owner(n_event)
    conn = HomeKitConnection(owner, ["127.0.0.1"], port, concurrency_limit=max(1, n_http))
    reads: list[int] = []
    try:
        await asyncio.wait_for(conn.ensure_connection(), 10)
        protocol = conn.protocol
        assert type(protocol) is InsecureHomeKitProtocol
        real_data_received = protocol.data_received

        def counting_data_received(data):
            reads.append(len(data))
            real_data_received(data)

        protocol.data_received = counting_data_received
        go.set()

        requests = [asyncio.ensure_future(conn.get(f"/r{i}")) for i in range(n_http)]
        responses = await asyncio.wait_for(asyncio.gather(*requests), 10) if requests else []
        await asyncio.wait_for(owner.all_events.wait(), 10)
        await asyncio.sleep(0.01)  # anything duplicated would show up now

        assert [snapshot(r) for r in responses] == [m.expected() for m in msgs if m.version.startswith("HTTP")]
        assert owner.events == [json.loads(m.body) for m in msgs if m.version.startswith("EVENT")]
        assert sum(reads) == sum(len(p) for p in pieces)
        assert protocol.result_cbs == []
        nxt = protocol.current_response
        assert not nxt.is_read_completely() and nxt.version is None and nxt.body == b""
    finally:
        await conn.close()
        server.close()
        await server.wait_closed()
    return len(reads)


def test_real_connection_over_loopback():
    async def main():
        rng = random.Random(0x50C)
        reads = 0
        cases = 0
        for i in range(30):
            msgs = []
            for _ in range(rng.randrange(1, 7)):
                if rng.random() < 0.4:
                    msg = random_msg(rng, 120, version="EVENT/1.0")
                    if msg.framing == "none":
                        msg.framing = "length"
                        msg.framing_name = "Content-Length"
                    body = json.dumps({"characteristics": [{"aid": 1, "iid": rng.randrange(99), "value": rng.randrange(99)}]})
                    msg.body = body.encode()
                    msg.chunks = [len(msg.body) - 5, 5]
                else:
                    # 4xx would be turned into an exception by HomeKitConnection.request
                    msg = random_msg(rng, 400, http_only_ok=True, version="HTTP/1.1")
                msgs.append(msg)
            if i == 0:
                msgs = [m for m in msgs if m.version.startswith("EVENT")] or msgs  # events only, nothing requested
            stream = b"".join(m.wire() for m in msgs)
            cuts = [rng.randrange(1, len(stream)) for _ in range(rng.randrange(1, 9))]
            if i % 3 == 0:
                # cut right around the message boundaries and inside the CRLFs
                at = 0
                for m in msgs[:-1]:
                    at += len(m.wire())
                    cuts.append(at + rng.choice([-1, 0, 1]))
            reads += await loopback_case(rng, msgs, split(stream, cuts))
            cases += 1
        print(f"  HomeKitConnection over loopback TCP: {cases} scripted accessories, {reads} socket reads ok")

    asyncio.run(main())


if __name__ == "__main__":
    import aiohomekit

    print("library under test:", aiohomekit.__file__)
    for name, fn in sorted(globals().items()):
        if name.startswith("test_") and callable(fn):
            print(name)
            fn()
    print("ALL OK")
    sys.exit(0)
