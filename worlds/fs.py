"""SimFS: in-memory file system behind the `open` / `os` / `pathlib` names used by
aiohomekit.controller.controller and aiohomekit.characteristic_cache (module-attribute seams,
routed by the path prefix /simfs/ so that any repair using temp files + os.replace is simulated
too).  Every file operation is a crash point.

Crash model: process crash.  Bytes handed to the OS persist; bytes still in a Python-level
buffer may be lost or written only in part, so at a crash inside/after a write the durable
content is (bytes already flushed) + (ANY prefix of the pending bytes) - a superset of what
CPython's 8 KiB buffering can produce, which is exactly what the property quantifies over
("after every prefix of the bytes written").  After the crash the process is dead: every later
file operation is a no-op (context-manager exits must not flush).  rename/replace are atomic.
Power-loss reordering of un-fsynced metadata is out of scope.
"""

from __future__ import annotations

import builtins
import io
import os as _real_os
import pathlib as _real_pathlib
import types

PREFIX = "/simfs/"
TMPDIR = "/simfs/tmpdir"  # what tempfile.gettempdir() is in the simulation; may sit on another device than the pairing file


class SimCrash(BaseException):
    """the simulated process died here"""


class SimFS:
    def __init__(self) -> None:
        self.files: dict[str, bytes] = {}
        self.dirs: set[str] = {"/simfs", TMPDIR}
        self.tmp_other_device = False  # the system temp dir is another file system (tmpfs /tmp, container volume): rename -> EXDEV
        self.tmp_counter = 0
        self.ops: list[tuple] = []  # trace of operations (kind, path, nbytes)
        self.op_counter = 0
        self.crash_at: tuple[int, int] | None = None  # (op index, prefix of pending bytes kept)
        self.crashed = False
        self.open_files: list[SimFile] = []
        self.fail_open: dict[str, type] = {}
        self.fds: dict[int, tuple[str, int]] = {}  # descriptors from os.open: fd -> (path, flags)
        self.disk_full = False  # after a short write every further write fails with ENOSPC
        self.fail_at: tuple[int, int, int] | None = None  # (op index, errno, prefix of pending bytes that still got written)
        self.errors_injected = 0

    # ---- crash machinery ------------------------------------------------------------
    def step(self, kind: str, path: str, n: int = 0, f: "SimFile | None" = None) -> bool:
        """Register one operation.  Returns True if it takes (full) effect.  Raises SimCrash at
        the chosen crash point after applying the partial effect."""
        if self.crashed:
            return False
        idx = self.op_counter
        self.op_counter += 1
        self.ops.append((kind, path, n))
        if self.fail_at is not None and idx == self.fail_at[0]:
            # an I/O error instead of a crash: the call raises OSError, the process lives on.  For calls that carry pending bytes
            # a prefix may already have reached the file (short write on a full disk)
            _, err, keep = self.fail_at
            self.fail_at = None
            if err == -1:
                err = 28  # a short write under a buffered file: the buffer retries the rest and runs into ENOSPC
            if kind in ("write", "flush", "close") and f is not None and keep:
                f._apply(min(keep, len(f.pending)))
            if kind in ("flush", "close") and f is not None:
                f.pending.clear()  # the buffered data is gone (CPython drops the buffer when a flush fails at close)
            self.errors_injected += 1
            raise (PermissionError if err == 13 else OSError)(err, _real_os.strerror(err), path)
        if self.crash_at is not None and idx == self.crash_at[0]:
            # partial effect: for ops that carry pending bytes, a prefix becomes durable
            if kind in ("write", "flush", "close") and f is not None:
                keep = min(self.crash_at[1], len(f.pending))
                if keep:
                    f._apply(keep)
            self.crashed = True
            raise SimCrash(f"crash at op {idx} ({kind} {path})")
        return True

    def restart(self) -> None:
        """fresh process on the surviving files"""
        self.disk_full = False
        self.crashed = False
        self.crash_at = None
        self.op_counter = 0
        self.ops = []
        self.open_files = []

    # ---- file API ---------------------------------------------------------------------
    def os_open(self, path, flags: int, mode: int = 0o777) -> int:
        """os.open: no implicit truncation - only O_TRUNC empties an existing file"""
        path = _real_os.fspath(path).rstrip("/") or "/"
        if path in self.dirs:
            # a descriptor for a directory (to fsync it after a rename)
            if flags & (_real_os.O_WRONLY | _real_os.O_RDWR):
                raise IsADirectoryError(21, "Is a directory", path)
            self.step("os_open_dir", path)
            fd = 20_000 + len(self.fds)
            self.fds[fd] = (path, flags)
            return fd
        if _real_os.path.dirname(path) not in self.dirs:
            raise FileNotFoundError(2, "No such file or directory", path)
        if self.step("os_open", path):
            if path in self.files:
                if flags & _real_os.O_EXCL and flags & _real_os.O_CREAT:
                    raise FileExistsError(17, "File exists", path)
                if flags & _real_os.O_TRUNC:
                    self.files[path] = b""
            elif flags & _real_os.O_CREAT:
                self.files[path] = b""
            else:
                raise FileNotFoundError(2, "No such file or directory", path)
        fd = 20_000 + len(self.fds)
        self.fds[fd] = (path, flags)
        return fd

    def open(self, path, mode="r", buffering=-1, encoding=None, errors=None, newline=None, **kw):
        if isinstance(path, int) and path in self.fds:
            # open(fd, "w"): wraps the descriptor, does NOT truncate; writing starts at offset 0 (or at the end with O_APPEND)
            real_path, flags = self.fds[path]
            f = SimFile(self, real_path, mode, encoding or "utf-8")
            f.pos = len(self.files.get(real_path, b"")) if flags & _real_os.O_APPEND else 0
            self.open_files.append(f)
            return f
        path = _real_os.fspath(path)
        if path in self.fail_open:
            raise self.fail_open[path](13, "Permission denied", path)
        if "r" in mode and "+" not in mode:
            if self.crashed:
                raise SimCrash("process is dead")
            if path not in self.files:
                raise FileNotFoundError(2, "No such file or directory", path)
            data = self.files[path]
            if "b" in mode:
                return io.BytesIO(data)
            return _TextReader(data, encoding or "utf-8", errors or "strict")
        if _real_os.path.dirname(path) not in self.dirs:
            raise FileNotFoundError(2, "No such file or directory", path)
        f = SimFile(self, path, mode, encoding or "utf-8")
        f.raw = buffering == 0 and "b" in mode
        if self.step("open_" + mode.replace("b", "").replace("t", ""), path):
            if "w" in mode:
                self.files[path] = b""
            elif "x" in mode:
                if path in self.files:
                    raise FileExistsError(17, "File exists", path)
                self.files[path] = b""
            elif "a" in mode:
                self.files.setdefault(path, b"")
            if "a" in mode:
                f.pos = len(self.files.get(path, b""))
        self.open_files.append(f)
        return f

    def device(self, path: str) -> str:
        return "tmp" if self.tmp_other_device and (path == TMPDIR or path.startswith(TMPDIR + "/")) else "main"

    def replace(self, src, dst) -> None:
        src, dst = _real_os.fspath(src), _real_os.fspath(dst)
        if self.step("replace", dst):
            if src not in self.files:
                raise FileNotFoundError(2, "No such file or directory", src)
            if self.device(src) != self.device(dst):
                raise OSError(18, "Invalid cross-device link", src)  # rename(2) never crosses file systems
            self.files[dst] = self.files.pop(src)

    def unlink(self, path) -> None:
        path = _real_os.fspath(path)
        if self.step("unlink", path):
            if path not in self.files:
                raise FileNotFoundError(2, "No such file or directory", path)
            del self.files[path]

    def exists(self, path) -> bool:
        path = _real_os.fspath(path).rstrip("/") or "/"
        return path in self.files or path in self.dirs

    def makedirs(self, path, exist_ok=False) -> None:
        path = _real_os.fspath(path).rstrip("/")
        if path in self.dirs and not exist_ok:
            raise FileExistsError(17, "File exists", path)
        if self.step("mkdir", path):
            parts = path.split("/")
            for i in range(2, len(parts) + 1):
                self.dirs.add("/".join(parts[:i]))


class _TextReader(io.StringIO):
    def __init__(self, data: bytes, encoding: str, errors: str) -> None:
        # decoding happens on read(), like a real text file: an undecodable file opens fine
        super().__init__()
        self._data = data
        self._enc = encoding
        self._err = errors

    def read(self, n=-1):
        return self._data.decode(self._enc, self._err)


class SimFile:
    def __init__(self, fs: SimFS, path: str, mode: str, encoding: str) -> None:
        self.fs = fs
        self.path = path
        self.mode = mode
        self.binary = "b" in mode
        self.encoding = encoding
        self.pending = bytearray()
        self.closed = False
        self.name = path
        self.pos = 0  # offset at which pending bytes land (0 after a truncating open)
        self.raw = False
        self.delete_on_close = False

    def write(self, s) -> int:
        data = bytes(s) if self.binary else s.encode(self.encoding)
        if self.raw:
            # io.FileIO (open(..., "wb", buffering=0)): one write(2) per call, no user-space buffer, and the call may accept
            # FEWER bytes than asked for without raising (full disk, quota, RLIMIT_FSIZE); only the next write fails
            fs = self.fs
            if fs.disk_full:
                fs.step("write", self.path, 0, self)
                raise OSError(28, "No space left on device", self.path)
            fa = fs.fail_at
            if fa is not None and fa[0] == fs.op_counter and fa[1] == -1 and not fs.crashed:
                fs.fail_at = None
                fs.ops.append(("write", self.path, len(data)))
                fs.op_counter += 1
                keep = min(max(fa[2], 0), max(len(data) - 1, 0))
                self.pending += data[:keep]
                self._commit()
                fs.disk_full = True
                fs.errors_injected += 1
                return keep
            self.pending += data
            if fs.step("write", self.path, len(data), self):
                self._commit()
            return len(data)
        self.pending += data
        self.fs.step("write", self.path, len(data), self)
        return len(s)

    def flush(self) -> None:
        if self.fs.step("flush", self.path, len(self.pending), self):
            self._commit()

    def _apply(self, n: int) -> None:
        """the first n pending bytes reach the file at the current offset (overwriting what is there, extending if needed)"""
        cur = self.fs.files.get(self.path, b"")
        data = bytes(self.pending[:n])
        self.fs.files[self.path] = cur[: self.pos] + data + cur[self.pos + len(data):]
        self.pos += len(data)
        del self.pending[:n]

    def _commit(self) -> None:
        if self.pending:
            self._apply(len(self.pending))

    def close(self) -> None:
        if self.closed:
            return
        self.closed = True
        if self.fs.step("close", self.path, len(self.pending), self):
            self._commit()
        if self.delete_on_close and not self.fs.crashed:
            self.fs.files.pop(self.path, None)

    def fileno(self) -> int:
        return 10_000 + self.fs.open_files.index(self)

    def __enter__(self):
        return self

    def __exit__(self, *a):
        self.close()
        return False


# =====================================================================================
# seams
# =====================================================================================
CUR = types.SimpleNamespace(fs=None)


def _is_sim(path) -> bool:
    try:
        return CUR.fs is not None and _real_os.fspath(path).startswith(PREFIX[:-1])
    except TypeError:
        return False


def sim_open(path, *a, **kw):
    if isinstance(path, int) and CUR.fs is not None and path in CUR.fs.fds:
        return CUR.fs.open(path, *a, **kw)
    if _is_sim(path):
        return CUR.fs.open(path, *a, **kw)
    return builtins.open(path, *a, **kw)


class _OsPathShim:
    def __getattr__(self, name):
        return getattr(_real_os.path, name)

    @staticmethod
    def exists(p):
        return CUR.fs.exists(p) if _is_sim(p) else _real_os.path.exists(p)

    @staticmethod
    def isfile(p):
        return (_real_os.fspath(p) in CUR.fs.files) if _is_sim(p) else _real_os.path.isfile(p)

    @staticmethod
    def isdir(p):
        return (_real_os.fspath(p).rstrip("/") in CUR.fs.dirs) if _is_sim(p) else _real_os.path.isdir(p)


class _OsShim:
    path = _OsPathShim()

    def __getattr__(self, name):
        return getattr(_real_os, name)

    @staticmethod
    def replace(src, dst, **kw):
        return CUR.fs.replace(src, dst) if _is_sim(dst) else _real_os.replace(src, dst, **kw)

    rename = replace

    @staticmethod
    def unlink(p, **kw):
        return CUR.fs.unlink(p) if _is_sim(p) else _real_os.unlink(p, **kw)

    remove = unlink

    @staticmethod
    def open(p, flags, mode=0o777, **kw):
        return CUR.fs.os_open(p, flags, mode) if _is_sim(p) else _real_os.open(p, flags, mode, **kw)

    @staticmethod
    def close(fd):
        if isinstance(fd, int) and CUR.fs is not None and fd in CUR.fs.fds:
            return None
        return _real_os.close(fd)

    @staticmethod
    def fdopen(fd, *a, **kw):
        if isinstance(fd, int) and CUR.fs is not None and fd in CUR.fs.fds:
            return CUR.fs.open(fd, *a, **kw)
        return _real_os.fdopen(fd, *a, **kw)

    @staticmethod
    def fsync(fd):
        if isinstance(fd, int) and fd >= 10_000 and CUR.fs is not None:
            CUR.fs.step("fsync", str(fd))
            return None
        return _real_os.fsync(fd)

    @staticmethod
    def makedirs(p, mode=0o777, exist_ok=False):
        return CUR.fs.makedirs(p, exist_ok) if _is_sim(p) else _real_os.makedirs(p, mode, exist_ok)

    @staticmethod
    def mkdir(p, *a, **kw):
        return CUR.fs.makedirs(p, True) if _is_sim(p) else _real_os.mkdir(p, *a, **kw)

    @staticmethod
    def getpid():
        return 4242


class SimPath:
    """pathlib.Path stand-in for paths under /simfs (only what file-handling code uses)."""

    def __init__(self, *parts) -> None:
        self._p = _real_os.path.join(*[_real_os.fspath(x) for x in parts])

    def __fspath__(self) -> str:
        return self._p

    def __str__(self) -> str:
        return self._p

    def __repr__(self) -> str:
        return f"SimPath({self._p!r})"

    def __truediv__(self, other):
        return SimPath(self._p, other)

    def __eq__(self, other):
        return _real_os.fspath(other) == self._p if hasattr(other, "__fspath__") or isinstance(other, str) else NotImplemented

    def __hash__(self):
        return hash(self._p)

    @property
    def parent(self):
        return SimPath(_real_os.path.dirname(self._p) or "/")

    @property
    def name(self):
        return _real_os.path.basename(self._p)

    @property
    def suffix(self):
        return _real_os.path.splitext(self._p)[1]

    @property
    def stem(self):
        return _real_os.path.splitext(self.name)[0]

    def with_suffix(self, suffix):
        return SimPath(_real_os.path.splitext(self._p)[0] + suffix)

    def with_name(self, name):
        return SimPath(_real_os.path.dirname(self._p), name)

    def exists(self):
        return CUR.fs.exists(self._p)

    def is_file(self):
        return self._p in CUR.fs.files

    def is_dir(self):
        return self._p.rstrip("/") in CUR.fs.dirs

    def mkdir(self, mode=0o777, parents=False, exist_ok=False):
        CUR.fs.makedirs(self._p, exist_ok)

    def open(self, mode="r", *a, **kw):
        return CUR.fs.open(self._p, mode, *a, **kw)

    def read_text(self, encoding=None, errors=None):
        with self.open("r", encoding=encoding, errors=errors) as f:
            return f.read()

    def read_bytes(self):
        with self.open("rb") as f:
            return f.read()

    def write_text(self, data, encoding=None, errors=None, newline=None):
        with self.open("w", encoding=encoding) as f:
            return f.write(data)

    def write_bytes(self, data):
        with self.open("wb") as f:
            return f.write(data)

    def replace(self, target):
        CUR.fs.replace(self._p, target)
        return SimPath(target)

    rename = replace

    def unlink(self, missing_ok=False):
        try:
            CUR.fs.unlink(self._p)
        except FileNotFoundError:
            if not missing_ok:
                raise


def _path_factory(*parts):
    if parts and _is_sim(parts[0]):
        return SimPath(*parts)
    return _real_pathlib.Path(*parts)


class _PathlibShim:
    Path = staticmethod(_path_factory)

    def __getattr__(self, name):
        return getattr(_real_pathlib, name)


class _TempfileShim:
    """tempfile stand-in: temp files next to the target inside SimFS"""

    def __getattr__(self, name):
        import tempfile

        return getattr(tempfile, name)

    @staticmethod
    def NamedTemporaryFile(mode="w+b", buffering=-1, encoding=None, newline=None, suffix=None, prefix=None, dir=None, delete=True, **kw):
        d = _real_os.fspath(dir) if dir is not None else TMPDIR  # no dir= : the system temp dir, not the target's directory
        if not _is_sim(d):
            import tempfile

            return tempfile.NamedTemporaryFile(mode, buffering, encoding, newline, suffix, prefix, dir, delete, **kw)
        CUR.fs.tmp_counter += 1
        name = _real_os.path.join(d, (prefix or "tmp") + f"simtmp{CUR.fs.tmp_counter}" + (suffix or ""))
        f = CUR.fs.open(name, mode.replace("+", ""), encoding=encoding)
        f.delete_on_close = bool(delete)
        return f

    @staticmethod
    def mkstemp(suffix=None, prefix=None, dir=None, text=False):
        d = _real_os.fspath(dir) if dir is not None else TMPDIR
        if not _is_sim(d):
            import tempfile

            return tempfile.mkstemp(suffix, prefix, dir, text)
        CUR.fs.tmp_counter += 1
        name = _real_os.path.join(d, (prefix or "tmp") + f"simtmp{CUR.fs.tmp_counter}" + (suffix or ""))
        fd = CUR.fs.os_open(name, _real_os.O_RDWR | _real_os.O_CREAT | _real_os.O_EXCL, 0o600)
        return fd, name

    @staticmethod
    def gettempdir():
        return TMPDIR if CUR.fs is not None else __import__("tempfile").gettempdir()


class _ShutilShim:
    """shutil stand-in over SimFS: move() is a rename when both names are on one device and otherwise falls back, as the real
    one does, to copying (destination opened "wb" = truncated, then written chunk by chunk) and unlinking the source"""

    def __getattr__(self, name):
        import shutil

        return getattr(shutil, name)

    @staticmethod
    def copyfile(src, dst, **kw):
        if not (_is_sim(src) or _is_sim(dst)):
            import shutil

            return shutil.copyfile(src, dst, **kw)
        with CUR.fs.open(src, "rb") as fsrc:
            data = fsrc.read()
        out = CUR.fs.open(dst, "wb")
        try:
            for i in range(0, max(len(data), 1), 65536):
                out.write(data[i : i + 65536])
        finally:
            out.close()
        return dst

    copy = copy2 = copyfile

    @staticmethod
    def move(src, dst, **kw):
        if not (_is_sim(src) or _is_sim(dst)):
            import shutil

            return shutil.move(src, dst, **kw)
        try:
            CUR.fs.replace(src, dst)
        except OSError as e:
            if e.errno != 18:
                raise
            _ShutilShim.copyfile(src, dst)
            CUR.fs.unlink(src)
        return dst


_seamed: set = set()


def install() -> None:
    """module-attribute seams in EVERY loaded aiohomekit module (not only the two that touch files today): a refactoring that moves
    the file handling into a helper module keeps running inside the simulation.  `open` shadows the builtin per module; `os`,
    `pathlib`, `tempfile`, `shutil` are replaced only where the module holds the genuine module object (another seam's stand-in,
    e.g. the randomness shim in crypto.srp, is left alone).  Paths outside /simfs/ fall through to the real thing."""
    import shutil as _real_shutil
    import sys
    import tempfile as _real_tempfile

    import aiohomekit.characteristic_cache  # noqa: F401
    import aiohomekit.controller.controller  # noqa: F401

    for name, mod in list(sys.modules.items()):
        if mod is None or name in _seamed or not (name == "aiohomekit" or name.startswith("aiohomekit.")):
            continue
        _seamed.add(name)
        mod.open = sim_open
        if getattr(mod, "os", None) is _real_os:
            mod.os = _OsShim()
        if getattr(mod, "pathlib", None) is _real_pathlib:
            mod.pathlib = _PathlibShim()
        if getattr(mod, "tempfile", None) is _real_tempfile:
            mod.tempfile = _TempfileShim()
        if getattr(mod, "shutil", None) is _real_shutil:
            mod.shutil = _ShutilShim()
        if getattr(mod, "Path", None) is _real_pathlib.Path:
            mod.Path = _path_factory
    # the two modules that handle files today get every stand-in whether or not they import the module yet (a change may add it)
    import aiohomekit.characteristic_cache as cc
    import aiohomekit.controller.controller as ctl

    for mod in (cc, ctl):
        for attr, shim in (("os", _OsShim), ("pathlib", _PathlibShim), ("tempfile", _TempfileShim), ("shutil", _ShutilShim)):
            if not isinstance(getattr(mod, attr, None), shim):
                setattr(mod, attr, shim())
