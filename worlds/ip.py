"""IP world: simulated TCP (SimNet / SimSocket / SimTransport), the reference accessory behind
it, the real IpPairing / SecureHomeKitConnection in front of it, fault injection and monitors.

SimTransport mirrors the parts of CPython's _SelectorSocketTransport the properties depend on
(DESIGN.md appendix B).  Per direction the byte stream is FIFO and loss-free; it is cut into
reads, delayed, and may be ended by FIN/RST at any byte, as decided by the Chooser.
"""

from __future__ import annotations

import asyncio
import collections
import json
import socket as _socket

from refimpl import crypto as RC
from refimpl import hap, http as rhttp, tlv8
from refimpl.ip_accessory import DefaultHooks, IpAccessory
from simkit import seams
from simkit.core import Ctx

EPS = 1e-6


# ======================================================================================
# simulated TCP
# ======================================================================================
class SimSocket:
    def __init__(self, net: "SimNet", family, type_, proto) -> None:
        self.net = net
        self.family = family
        self.type = type_
        self.proto = proto
        self.conn: SimConn | None = None
        self.closed = False
        self.peer = None
        self.opts: list = []
        self.no = len(net.sockets)
        net.sockets.append(self)

    def setblocking(self, flag) -> None:
        pass

    def setsockopt(self, *a) -> None:
        self.opts.append(a)

    def getpeername(self):
        if self.conn is None or self.peer is None:
            raise OSError(107, "Transport endpoint is not connected")
        return self.peer

    def fileno(self) -> int:
        return 1000 + self.no

    def close(self) -> None:
        if self.closed:
            return
        self.closed = True
        if self.conn is not None and self.conn.transport is None:
            # closed before a transport took it over (lost a happy-eyeballs race, or cancelled)
            self.conn.client_closed("sock.close")


class _Direction:
    """One direction of a connection: FIFO of (item) delivered by a single timer chain."""

    def __init__(self, conn: "SimConn", name: str, deliver) -> None:
        self.conn = conn
        self.name = name
        self.q: collections.deque = collections.deque()
        self.timer = None
        self.deliver = deliver
        self.last_t = 0.0

    def push(self, item, delay: float) -> None:
        loop = self.conn.net.loop
        t = max(loop.time() + delay, self.last_t)
        self.last_t = t
        self.q.append((t, item))
        if self.timer is None:
            self._arm()

    def _arm(self) -> None:
        if not self.q:
            self.timer = None
            return
        t, _ = self.q[0]
        self.timer = self.conn.net.loop.call_at(t, self._fire)

    def _fire(self) -> None:
        self.timer = None
        if not self.q:
            return
        _, item = self.q.popleft()
        try:
            self.deliver(item)
        finally:
            if self.timer is None:
                self._arm()

    def clear(self) -> None:
        self.q.clear()
        if self.timer is not None:
            self.timer.cancel()
            self.timer = None


class SimConn:
    """One TCP connection between the controller (client) and a simulated host (server)."""

    def __init__(self, net: "SimNet", no: int, host: str, sock: SimSocket, server) -> None:
        self.net = net
        self.no = no
        self.host = host
        self.sock = sock
        self.transport: SimTransport | None = None
        self.server = server  # object with on_data/on_close
        self.t_open = net.loop.time()
        self.client_open = True  # controller still holds its end
        self.t_client_closed: float | None = None
        self.client_close_reason = ""
        self.server_open = True  # accessory still holds its end
        self.peer_closed_first = False
        self.a2c = _Direction(self, "a2c", self._deliver_to_client)
        self.c2a = _Direction(self, "c2a", self._deliver_to_server)
        self.bytes_a2c = 0  # delivered to an open transport
        self.queued_a2c = 0  # handed to the network by the accessory
        self.bytes_c2a = 0
        self.writes: list[list[bytes]] = []  # every transport.write/writelines call, verbatim
        self.t_lost_cb: float | None = None  # when protocol.connection_lost was invoked
        self.force_coalesce = False  # the scenario wants the next send to share a read with the previous one

    # ---- accessory -> controller ------------------------------------------------------
    def server_send(self, data: bytes, *, delay: float | None = None, cuts: list[int] | None = None) -> None:
        if not self.server_open or not data:
            return
        net = self.net
        self.queued_a2c += len(data)
        if cuts is None:
            cuts = net.segment(self, len(data))
        prev = 0
        first = True
        for c in list(cuts) + [len(data)]:
            if c <= prev:
                continue
            piece = data[prev:c]
            prev = c
            if first and self.a2c.q and self.a2c.q[-1][1][0] == "data":
                # bytes of an earlier send are still in flight: TCP is a byte stream, the controller's next recv() may return the
                # tail of that send and the head of this one together (one data_received call for two messages)
                co = net.profile.get("coalesce", 0)
                if self.force_coalesce or (co and net.ctx.ch.chance("net.coalesce", co)):
                    t_prev, (_, prev_piece) = self.a2c.q[-1]
                    self.a2c.q[-1] = (t_prev, ("data", prev_piece + piece))
                    net.ctx.probe("sends_coalesced_into_one_read")
                    first = False
                    continue
            d = (delay if delay is not None else net.latency(self, "a2c")) if first else net.gap(self)
            first = False
            self.a2c.push(("data", piece), d)

    def server_close(self, kind: str = "fin", delay: float | None = None) -> None:
        if not self.server_open:
            return
        self.server_open = False
        if self.client_open:
            self.peer_closed_first = True
        self.net.ctx.event("srv_close", self.no, kind)
        d = delay if delay is not None else self.net.latency(self, "a2c")
        if kind == "rst":
            self.a2c.clear()
            self.a2c.push(("rst", None), d)
        else:
            self.a2c.push(("fin", None), d)
        if hasattr(self.server, "on_close"):
            self.server.on_close()

    def _deliver_to_client(self, item) -> None:
        kind, data = item
        tr = self.transport
        if tr is None:
            if kind == "data":
                # connected socket without a transport yet: bytes sit in the kernel buffer
                self.net.pending_before_transport.setdefault(self.no, []).append(item)
            elif kind in ("fin", "rst"):
                self.net.pending_before_transport.setdefault(self.no, []).append(item)
            return
        if kind == "data":
            if tr._conn_lost or tr._closing:
                return
            if self.net.pre_deliver:
                self.net.pre_deliver(self)
            self.bytes_a2c += len(data)
            tr._sim_data(data)
            if self.net.post_deliver:
                self.net.post_deliver(self)
        elif kind == "fin":
            tr._sim_eof()
        elif kind == "rst":
            hops = self.net.rst_window_hops
            if hops and not (tr._conn_lost or tr._closing):
                # the kernel has the RST, the event loop has not polled the socket yet: for a few loop iterations the transport
                # still looks healthy while socket calls already fail (CPython: write_eof -> sock.shutdown raises ENOTCONN)
                tr._reset_pending = True
                self.net.ctx.probe("rst_pending_window")
                self.net.ctx.event("rst_pending", self.no)
                if self.net.on_rst_pending:
                    self.net.on_rst_pending(self)

                def process(n=hops):
                    if n > 0:
                        self.net.loop.call_soon(process, n - 1)
                    else:
                        tr._reset_pending = False
                        tr._sim_reset()

                self.net.loop.call_soon(process, hops - 1)
            else:
                tr._sim_reset()

    # ---- controller -> accessory --------------------------------------------------------
    def client_write(self, data: bytes) -> None:
        self.bytes_c2a += len(data)
        self.c2a.push(("data", data), self.net.latency(self, "c2a"))

    def client_closed(self, reason: str) -> None:
        if not self.client_open:
            return
        self.client_open = False
        self.net.open_set.discard(self)
        self.t_client_closed = self.net.loop.time()
        self.client_close_reason = reason
        self.net.ctx.event("cli_close", self.no, reason)
        self.c2a.push(("fin", None), self.net.latency(self, "c2a"))

    def _deliver_to_server(self, item) -> None:
        kind, data = item
        if not self.server_open:
            return
        if kind == "data":
            self.server.on_data(data)
        else:
            self.server_open = False
            self.a2c.clear()
            if hasattr(self.server, "on_close"):
                self.server.on_close()


class SimTransport(asyncio.Transport):
    def __init__(self, loop, conn: SimConn, protocol) -> None:
        super().__init__()
        self._loop = loop
        self.conn = conn
        self._protocol = protocol
        self._closing = False
        self._conn_lost = 0
        self._eof = False
        self._lost_called = False
        conn.transport = self

    # ---- API used by the library ----------------------------------------------------------
    def get_extra_info(self, name, default=None):
        if name == "peername":
            return self.conn.sock.peer
        if name == "socket":
            return self.conn.sock
        return default

    def is_closing(self) -> bool:
        return self._closing

    def set_protocol(self, protocol) -> None:
        self._protocol = protocol

    def get_protocol(self):
        return self._protocol

    def write(self, data) -> None:
        self.writelines([data])

    def writelines(self, list_of_data) -> None:
        datas = [bytes(d) for d in list_of_data]
        if self._eof:
            raise RuntimeError("Cannot call write() after write_eof()")
        data = b"".join(datas)
        if not data:
            return
        if self._conn_lost:
            self._conn_lost += 1
            self.conn.net.ctx.probe("write_after_close")
            return
        if self._closing:
            # closed but still draining: the real transport would append to its buffer; the library never writes on a closing
            # transport, so the bytes are simply not delivered here
            self.conn.net.ctx.probe("write_while_draining_after_close")
            return
        self.conn.writes.append(datas)
        self.conn.net.on_client_write(self.conn, datas)
        if getattr(self, "_reset_pending", False):
            # sock.send() on a socket the peer has reset fails at once: 'Fatal write error on socket transport' -> _force_close;
            # connection_lost(exc) is delivered by call_soon, the bytes never leave
            self.conn.net.ctx.probe("write_in_rst_window")
            self._reset_pending = False
            self._fatal_error(ConnectionResetError(104, "Connection reset by peer"), "Fatal write error on socket transport")
            return
        self.conn.client_write(data)

    def write_eof(self) -> None:
        if self._closing or self._eof:
            return
        self._eof = True
        if getattr(self, "_reset_pending", False):
            # selector_events._SelectorSocketTransport.write_eof: self._sock.shutdown(SHUT_WR) on a socket the peer has reset
            raise OSError(107, "Transport endpoint is not connected")
        self.conn.c2a.push(("fin", None), self.conn.net.latency(self.conn, "c2a"))

    def can_write_eof(self) -> bool:
        return True

    def close(self) -> None:
        if self._closing:
            return
        self._closing = True
        self.conn.client_closed("transport.close")
        delay = self.conn.net.drain_delay(self.conn)
        if delay > 0:
            # unsent bytes in the write buffer: _conn_lost stays 0 until they have drained, so an abort() in between still
            # takes effect at once (selector_events: close() only counts the loss when the buffer is empty)
            self._draining = self._loop.call_later(delay, self._drained)
        else:
            self._conn_lost += 1
            self._loop.call_soon(self._call_connection_lost, None)

    def _drained(self) -> None:
        self._draining = None
        if not self._conn_lost:
            self._conn_lost += 1
            self._call_connection_lost(None)

    def abort(self) -> None:
        self._force_close(None)

    # ---- events from the simulated network -----------------------------------------------------
    def _sim_data(self, data: bytes) -> None:
        if self._conn_lost or self._closing:
            return
        try:
            self._protocol.data_received(data)
        except (SystemExit, KeyboardInterrupt):
            raise
        except BaseException as exc:  # noqa: BLE001
            self._fatal_error(exc, "Fatal error: protocol.data_received() call failed.")

    def _sim_eof(self) -> None:
        if self._conn_lost or self._closing:
            return
        try:
            keep_open = self._protocol.eof_received()
        except BaseException as exc:  # noqa: BLE001
            self._fatal_error(exc, "Fatal error: protocol.eof_received() call failed.")
            return
        if not keep_open:
            self.close_from_eof()

    def close_from_eof(self) -> None:
        if self._closing:
            return
        self._closing = True
        self.conn.client_closed("eof")
        # _read_ready__on_eof calls self.close(): with unsent bytes in the write buffer connection_lost is only reported once
        # the buffer has drained (or a write failed) - the same rule as for close()
        delay = self.conn.net.drain_delay(self.conn)
        if delay > 0:
            self._draining = self._loop.call_later(delay, self._drained)
        else:
            self._conn_lost += 1
            self._loop.call_soon(self._call_connection_lost, None)

    def _sim_reset(self) -> None:
        if self._conn_lost:
            return
        self._fatal_error(ConnectionResetError(104, "Connection reset by peer"), "Fatal read error on socket transport")

    def _fatal_error(self, exc, message) -> None:
        if not isinstance(exc, OSError):
            self._loop.call_exception_handler({"message": message, "exception": exc, "transport": self, "protocol": self._protocol})
        self._force_close(exc)

    def _force_close(self, exc) -> None:
        if self._conn_lost:
            return
        if not self._closing:
            self._closing = True
        if getattr(self, "_draining", None) is not None:
            self._draining.cancel()  # the write buffer is thrown away
            self._draining = None
            self.conn.net.ctx.probe("abort_while_draining_after_close")
        self.conn.client_closed("force:" + type(exc).__name__ if exc else "abort")
        self._conn_lost += 1
        self._loop.call_soon(self._call_connection_lost, exc)

    def _call_connection_lost(self, exc) -> None:
        if self._lost_called:
            return
        self._lost_called = True
        self.conn.net.ctx.event("conn_lost_cb", self.conn.no, type(exc).__name__ if exc else None)
        self.conn.t_lost_cb = self._loop.time()
        try:
            self._protocol.connection_lost(exc)
        finally:
            self.conn.sock.closed = True


class HostSpec:
    """what is reachable at an address: kind in {genuine, other, refuse, blackhole, unreachable, acceptclose}"""

    def __init__(self, kind: str = "genuine", server_factory=None) -> None:
        self.kind = kind
        self.server_factory = server_factory


class SimNet:
    def __init__(self, ctx: Ctx, loop, profile: dict) -> None:
        self.ctx = ctx
        self.loop = loop
        self.profile = profile
        self.hosts: dict[str, HostSpec] = {}
        self.sockets: list[SimSocket] = []
        self.conns: list[SimConn] = []
        self.connect_log: list[dict] = []  # every sock_connect: t, host, outcome
        self.pending_before_transport: dict[int, list] = {}
        self.write_monitors: list = []
        self.connect_decider = None  # callable(host) -> (outcome, delay)
        self.pre_deliver = None
        self.post_deliver = None
        self.rst_window_hops = int(profile.get("rst_window_hops", 0) or 0)  # loop iterations between RST arrival and its processing
        self.on_rst_pending = None
        self.open_set: set = set()
        self.accept_cb = None
        loop.net = self

    # ---- sockets ---------------------------------------------------------------------------
    def new_socket(self, family, type_, proto) -> SimSocket:
        return SimSocket(self, family, type_, proto)

    async def sock_connect(self, sock: SimSocket, address) -> None:
        host = address[0]
        loop = self.loop
        outcome, delay = self.connect_decider(host)
        rec = {"t": loop.time(), "host": host, "outcome": outcome, "sock": sock.no, "t_done": None}
        self.connect_log.append(rec)
        self.ctx.event("connect", host, outcome)
        fut = loop.create_future()
        if outcome == "blackhole":
            h = None
        else:
            h = loop.call_later(delay, lambda: (not fut.done()) and fut.set_result(None))
        try:
            await fut
        except asyncio.CancelledError:
            rec["outcome"] = outcome + "/cancelled"
            rec["t_done"] = loop.time()
            if h is not None:
                h.cancel()
            raise
        rec["t_done"] = loop.time()
        if outcome == "refuse":
            raise ConnectionRefusedError(111, f"Connect call failed {address!r}")
        if outcome == "unreachable":
            raise OSError(113, f"No route to host {address!r}")
        # established
        spec = self.hosts[host]
        if spec.server_factory is None:  # the host stopped listening while the SYN was in flight
            rec["outcome"] = "refuse/late"
            raise ConnectionRefusedError(111, f"Connect call failed {address!r}")
        conn = SimConn(self, len(self.conns), host, sock, None)
        self.conns.append(conn)
        self.open_set.add(conn)
        sock.conn = conn
        if sock.family == _socket.AF_INET6:
            # what getpeername() really returns (CPython >= 3.7): the inet_ntop spelling of the address - compressed, lower case,
            # an IPv4-mapped address in dotted form, and NO %scope (the zone travels as the 4th element) - whatever spelling was dialled
            bare, _, zone = host.partition("%")
            try:
                shown = _socket.inet_ntop(_socket.AF_INET6, _socket.inet_pton(_socket.AF_INET6, bare))
            except OSError:
                shown = bare
            scope = address[3] if len(address) > 3 and address[3] else (int(zone) if zone.isdigit() else (2 if zone else 0))
            sock.peer = (shown, address[1], 0, scope)
        else:
            sock.peer = (host, address[1])
        conn.server = spec.server_factory(conn)
        self.ctx.event("accepted", conn.no, host, spec.kind)
        if self.accept_cb:
            self.accept_cb(conn)
        if sock.closed:
            conn.client_closed("sock.close")

    async def create_connection(self, loop, protocol_factory, sock: SimSocket):
        conn = sock.conn
        if conn is None:
            raise OSError("socket is not connected")
        protocol = protocol_factory()
        waiter = loop.create_future()
        tr = SimTransport(loop, conn, protocol)
        loop.call_soon(protocol.connection_made, tr)
        loop.call_soon(self._start_reading, conn)
        loop.call_soon(lambda: (not waiter.done()) and waiter.set_result(None))
        try:
            await waiter
        except BaseException:
            tr.close()
            raise
        return tr, protocol

    def _start_reading(self, conn: SimConn) -> None:
        for item in self.pending_before_transport.pop(conn.no, []):
            conn._deliver_to_client(item)

    # ---- decisions ----------------------------------------------------------------------------
    def latency(self, conn: SimConn, direction: str) -> float:
        p = self.profile
        lo, hi = p.get("lat", (0.001, 0.001))
        if p.get("zero_latency") and self.ctx.ch.chance(f"net.zero_lat:{direction}", p["zero_latency"]):
            return 0.0
        if hi <= lo:
            return lo
        return self.ctx.ch.uniform(f"net.lat:{direction}", lo, hi, lo)

    def gap(self, conn: SimConn) -> float:
        p = self.profile
        g = p.get("gap", 0.0)
        if g <= 0:
            return 0.0
        if self.ctx.ch.chance("net.gap", p.get("gap_p", 0.5)):
            return self.ctx.ch.uniform("net.gap_len", 0.0, g, 0.0)
        return 0.0

    def segment(self, conn: SimConn, n: int) -> list[int]:
        style = self.profile.get("seg", "whole")
        ch = self.ctx.ch
        if n <= 1 or style == "whole":
            return []
        if style == "bytes":
            if n <= 400:
                return list(range(1, n))
            style = "random"
        if style == "halves":
            return [n // 2]
        if style == "prefix":  # cut inside the first two bytes (length prefix / status line start)
            return [1] if ch.chance("net.seg.prefix", 0.7) else []
        # random
        k = ch.pick("net.seg.k", 5)
        cuts = sorted({1 + ch.pick("net.seg.pos", n - 1) for _ in range(k)})
        return cuts

    def drain_delay(self, conn: SimConn) -> float:
        p = self.profile.get("slow_drain", 0.0)
        if p and self.ctx.ch.chance("net.slow_drain", p):
            return self.ctx.ch.uniform("net.slow_drain_len", 0.01, self.profile.get("slow_drain_max", 5.0), 0.01)
        return 0.0

    def on_client_write(self, conn: SimConn, datas: list[bytes]) -> None:
        for m in self.write_monitors:
            m(conn, datas)

    # ---- views --------------------------------------------------------------------------------------
    def client_open_conns(self) -> list[SimConn]:
        return sorted(self.open_set, key=lambda c: c.no)


# ======================================================================================
# test fixtures: identities, database
# ======================================================================================
def make_db(n_aids: int = 2, n_chars: int = 12, base_iid: int = 10) -> list[dict]:
    """A small accessory database.  Per accessory: accessory-information service plus one
    service holding characteristics with mixed permissions (pr/pw/ev, write-only, timed)."""
    db = []
    for aid in range(1, n_aids + 1):
        chars = []
        for k in range(n_chars):
            iid = base_iid + k
            if k % 6 == 4:
                perms = ["pw"]  # write-only
            elif k % 6 == 5:
                perms = ["pr", "pw", "ev", "tw"]
            elif k % 6 == 3:
                perms = ["pr", "ev"]
            else:
                perms = ["pr", "pw", "ev"]
            chars.append({"iid": iid, "type": "00000025-0000-1000-8000-0026BB765291" if k % 2 == 0 else "00000008-0000-1000-8000-0026BB765291",
                          "perms": perms, "format": "bool" if k % 2 == 0 else "int", "value": (k % 2 == 0) if k % 2 == 0 else k})
        db.append({
            "aid": aid,
            "services": [
                {"iid": 1, "type": "0000003E-0000-1000-8000-0026BB765291", "characteristics": [
                    {"iid": 2, "type": "00000023-0000-1000-8000-0026BB765291", "perms": ["pr"], "format": "string", "value": f"Acc{aid}"},
                    {"iid": 3, "type": "00000014-0000-1000-8000-0026BB765291", "perms": ["pw"], "format": "bool"},
                ]},
                {"iid": 8, "type": "00000043-0000-1000-8000-0026BB765291", "characteristics": chars},
            ],
        })
    return db


class Identities:
    """pairing record + accessory identity derived from the run's seed (neutral draws)."""

    def __init__(self, ch, hosts: list[str], port: int = 51826, acc_id: str = "aa:bb:cc:dd:ee:01") -> None:
        self.acc = hap.AccessoryIdentity(acc_id, ch.nbytes("id.acc_ltsk", 32))
        self.other = hap.AccessoryIdentity("aa:bb:cc:dd:ee:99", ch.nbytes("id.other_ltsk", 32))
        self.ios_ltsk = ch.nbytes("id.ios_ltsk", 32)
        self.ios_ltpk = RC.ed_pub(self.ios_ltsk)
        self.ios_id = "decc6fa3-de3e-41c9-adba-ef7409821bfc"
        self.pairing_data = {
            "AccessoryPairingID": acc_id,
            "AccessoryLTPK": self.acc.ltpk.hex(),
            "iOSPairingId": self.ios_id,
            "iOSDeviceLTSK": self.ios_ltsk.hex(),
            "iOSDeviceLTPK": self.ios_ltpk.hex(),
            "AccessoryIP": hosts[0],
            "AccessoryIPs": list(hosts),
            "AccessoryPort": port,
            "Connection": "IP",
        }


class FakeZeroconf:
    zeroconf = None


# ======================================================================================
# the world
# ======================================================================================
class WorldHooks(DefaultHooks):
    def __init__(self, world: "IpWorld") -> None:
        self.w = world

    def out(self, session, data, kind, serial):
        self.w.accessory_out(session, data, kind, serial)

    def verify_mut(self, session):
        return self.w.verify_mut_for(session)

    def http_override(self, session, req, serial):
        return self.w.http_override(session, req, serial)

    def write_status(self, aid, iid, value):
        return self.w.write_status(aid, iid, value)

    def read_status(self, aid, iid):
        return self.w.read_status(aid, iid)

    def mutate_char_reply(self, kind, code, obj):
        return self.w.mutate_char_reply(kind, code, obj)

    def pairings_reply(self, session, method, items):
        return self.w.pairings_reply(session, method, items)

    def frame_sizes(self, session):
        return self.w.frame_sizes(session)

    def eph(self, session, what, n):
        return self.w.ctx.ch.nbytes(f"acc.eph.{what}", n)


class _OtherServer:
    """a different HomeKit accessory reachable at an advertised address (wrong pairing id)"""


class IpWorld:
    """Builds: SimLoop.net, reference accessory (genuine + 'other'), real IpController/IpPairing.

    profile keys (all optional): lat, gap, seg, zero_latency, slow_drain, connect (weights per
    outcome), conn_behaviour (weights), resp_delay, resp_stall_p, frame (policy), hosts
    (list of (addr, kind)).
    """

    def __init__(self, ctx: Ctx, loop, profile: dict) -> None:
        seams.begin(ctx)
        self.ctx = ctx
        self.loop = loop
        ctx.loop = loop
        self.profile = profile
        self.ch = ctx.ch
        self.net = SimNet(ctx, loop, profile)
        self.net.connect_decider = self.decide_connect
        hosts = profile.get("hosts") or [("10.0.0.1", "genuine")]
        self.host_kinds = dict(hosts)
        self.ids = Identities(self.ch, [h for h, _ in hosts])
        self.db = make_db(profile.get("n_aids", 2), profile.get("n_chars", 12))
        self.hooks = WorldHooks(self)
        self.acc = IpAccessory(self.ids.acc, {self.ids.ios_id: self.ids.ios_ltpk}, self.db, hooks=self.hooks)
        self.other_acc = IpAccessory(self.ids.other, {self.ids.ios_id: self.ids.ios_ltpk}, make_db(1, 2), hooks=self.hooks)
        for h, kind in hosts:
            self.set_host(h, kind)
        self.conn_behaviour: dict[int, dict] = {}  # SimConn.no -> behaviour chosen at accept
        self.session_conn: dict[int, SimConn] = {}
        self.net.accept_cb = self.on_accept
        self.stall_all = False
        self.controller = None
        self.pairing = None
        self.listener_logs: dict[str, list] = {}
        self.resp_log: list[dict] = []  # responses handed to the network: serial, conn, t
        self.frame_policy = profile.get("frame", "max")
        self.status_plan: dict = {}
        self.reply_mut = None
        self.pairings_mut = None
        self.forced_verify_mut: list = []  # queue consumed by successive sessions (C04/C01 drivers)
        self.forced_http: list = []

    # ---- topology --------------------------------------------------------------------------
    def set_host(self, host: str, kind: str) -> None:
        self.host_kinds[host] = kind
        if kind in ("genuine", "acceptclose"):
            fac = lambda conn: self._session_for(self.acc, conn)  # noqa: E731
        elif kind == "other":
            fac = lambda conn: self._session_for(self.other_acc, conn)  # noqa: E731
        else:
            fac = None
        self.net.hosts[host] = HostSpec(kind, fac)

    def _session_for(self, acc: IpAccessory, conn: SimConn):
        s = acc.accept(conn)
        s.world_conn = conn
        return s

    def heal(self) -> None:
        """faults stop: every decision returns its benign default from now on, every address
        reaches the genuine accessory, stalled responses stay stalled (their connections are
        already doomed) but new ones are answered."""
        self.ctx.event("heal")
        self.ch.healed = True
        self.stall_all = False
        for h in list(self.net.hosts):
            self.set_host(h, "genuine")
        self.status_plan = {}
        self.reply_mut = None
        self.forced_verify_mut.clear()
        self.forced_http.clear()

    # ---- decisions --------------------------------------------------------------------------------
    def decide_connect(self, host: str):
        kind = self.host_kinds.get(host, "unreachable")
        ch = self.ch
        if kind in ("refuse", "unreachable", "blackhole"):
            return kind, 0.002
        w = self.profile.get("connect")
        delay = self.net.latency(None, "syn")
        if w:
            o = ch.weighted(f"net.connect:{host}", [("ok", w.get("ok", 1)), ("refuse", w.get("refuse", 0)),
                                                    ("blackhole", w.get("blackhole", 0)), ("unreachable", w.get("unreachable", 0)),
                                                    ("slow", w.get("slow", 0))], "ok")
            if o == "slow":
                return "ok", ch.uniform("net.connect.slow", 0.3, 12.0, 0.3)
            return o, delay
        return "ok", delay

    def on_accept(self, conn: SimConn) -> None:
        kind = self.host_kinds.get(conn.host)
        beh = {"kind": "honest"}
        w = self.profile.get("conn_behaviour")
        if kind == "acceptclose":
            beh = {"kind": "acceptclose"}
        elif w and kind == "genuine":
            k = self.ch.weighted("acc.conn_behaviour", [(n, w.get(n, 0)) for n in
                                                         ["honest", "close_m1", "close_m3", "rst_m1", "rst_m3", "http4xx_m1", "http4xx_m3", "bad_sig", "wrong_id",
                                                          "auth_m2", "auth_m4", "busy_m2", "short_key", "silent_m1", "silent_m3", "garbage", "rst_after_verify",
                                                          "fin_after_verify", "unknown_http", "sub_reply_no_status"]], "honest")
            beh = {"kind": k}
        self.conn_behaviour[conn.no] = beh
        if beh["kind"] == "acceptclose":
            conn.server_close("fin", delay=self.ch.uniform("acc.acceptclose.delay", 0.0, 0.5, 0.0))

    def verify_mut_for(self, session):
        if self.forced_verify_mut:
            return self.forced_verify_mut.pop(0)
        beh = self.conn_behaviour.get(session.conn.no, {}).get("kind")
        if beh == "bad_sig":
            return {"kind": "wrong_ltsk", "ltsk": self.ch.nbytes("acc.bad_ltsk", 32)}
        if beh == "wrong_id":
            return {"kind": "wrong_id", "id": "aa:bb:cc:dd:ee:77", "sign_wrong_id": True}
        if beh == "auth_m2":
            return {"kind": "error", "code": 2, "state": "expected"}
        if beh == "busy_m2":
            return {"kind": "error", "code": 7, "state": "expected"}
        if beh == "auth_m4":
            return {"kind": "error4", "code": 2, "state": "expected"}
        if beh == "short_key":
            return {"kind": "outer", "outer": {"kind": "setlen", "field": hap.T_PUBKEY, "n": 31}}
        return None

    def http_override(self, session, req, serial):
        if self.forced_http:
            f = self.forced_http.pop(0)
            if f is not None:
                return f
        conn = session.conn
        beh = self.conn_behaviour.get(conn.no, {}).get("kind", "honest")
        if req.target == "/pair-verify":
            try:
                st = tlv8.to_dict(tlv8.decode(req.body, strict=False)).get(hap.T_STATE, b"\x00")[0]
            except Exception:  # noqa: BLE001
                st = 0
            step = {1: "m1", 3: "m3"}.get(st)
            if step:
                if beh == f"close_{step}":
                    conn.server_close("fin")
                    return "silent"
                if beh == f"rst_{step}":
                    conn.server_close("rst")
                    return "silent"
                if beh == f"silent_{step}":
                    return "silent"
                if beh == f"http4xx_{step}":
                    return rhttp.response(self.ch.choice("acc.http4xx.code", [400, 404, 429, 470]), b"")
                if beh == "garbage" and step == "m1":
                    return rhttp.response(200, b"\x06\x01\x02\x03\xff", "application/pairing+tlv8")
                if beh == "unknown_http" and step == "m1":
                    return b"ICY 200 OK\r\nContent-Length: 0\r\n\r\n"
            return None
        if beh == "sub_reply_no_status" and req.method == "PUT" and b'"ev":true' in req.body:
            # a 207 whose rows carry no status (garbled reply to the re-subscription request)
            self.ctx.probe("sub_reply_no_status")
            try:
                rows = [{"aid": it["aid"], "iid": it["iid"]} for it in json.loads(req.body)["characteristics"]]
            except Exception:  # noqa: BLE001
                rows = []
            return rhttp.response(207, rhttp.compact_json({"characteristics": rows}))
        if self.stall_all:
            self.ctx.probe("stalled_response")
            return "silent"
        p = self.profile.get("resp_stall_p", 0)
        if p and self.ch.chance("acc.stall", p):
            self.ctx.probe("stalled_response")
            return "silent"
        p4 = self.profile.get("resp_4xx_p", 0)
        if p4 and self.ch.chance("acc.4xx", p4):
            return rhttp.response(self.ch.choice("acc.4xx.code", [400, 404, 422, 470]), rhttp.compact_json({"status": -70410}))
        return None

    def accessory_out(self, session, data: bytes, kind: str, serial) -> None:
        conn: SimConn = session.conn
        beh = self.conn_behaviour.get(conn.no, {}).get("kind", "honest")
        delay = None
        rd = self.profile.get("resp_delay")
        if rd and kind == "response" and session.secure:
            if self.ch.chance("acc.resp_delay_p", rd[0]):
                delay = self.ch.uniform("acc.resp_delay", rd[1], rd[2], rd[1])
        self.resp_log.append({"serial": serial, "conn": conn.no, "t": self.loop.time(), "kind": kind, "len": len(data)})
        cut = self.profile.get("truncate_p", 0)
        if cut and kind == "response" and session.secure and self.ch.chance("acc.truncate", cut):
            n = self.ch.pick("acc.truncate_at", max(1, len(data)))
            conn.server_send(data[:n], delay=delay)
            conn.server_close(self.ch.choice("acc.truncate_kind", ["fin", "rst"]))
            self.ctx.probe("response_truncated_by_close")
            return
        conn.server_send(data, delay=delay)
        if kind == "verify-final" and beh in ("rst_after_verify", "fin_after_verify"):
            d = self.ch.uniform("acc.drop_after_verify", 0.0, 0.2, 0.0)
            self.loop.call_later(d, conn.server_close, "rst" if beh.startswith("rst") else "fin")

    def frame_sizes(self, session):
        pol = self.frame_policy
        ch = self.ch
        if pol == "max":
            while True:
                yield 1024
        elif isinstance(pol, int):
            while True:
                yield pol
        else:  # mixed
            while True:
                yield ch.choice("acc.frame", [1024, 1, 2, 15, 16, 17, 255, 256, 511, 512, 1023, 1024, 3, 700])

    def write_status(self, aid, iid, value):
        if isinstance(value, tuple) and value and value[0] == "ev":
            return self.status_plan.get(("e", aid, iid), 0) if value[1] else 0  # refusing to send events (unsubscribing always works)
        return self.status_plan.get(("w", aid, iid), 0)

    def read_status(self, aid, iid):
        return self.status_plan.get(("r", aid, iid), 0)

    def mutate_char_reply(self, kind, code, obj):
        if self.reply_mut:
            return self.reply_mut(kind, code, obj)
        return code, obj

    def pairings_reply(self, session, method, items):
        if self.pairings_mut:
            return self.pairings_mut(method, items)
        return items

    # ---- library side ---------------------------------------------------------------------------------
    def make_pairing(self, preload_accessories: bool = True):
        from aiohomekit.characteristic_cache import CharacteristicCacheMemory
        from aiohomekit.controller.ip.controller import IpController

        self.controller = IpController(char_cache=CharacteristicCacheMemory(), zeroconf_instance=FakeZeroconf())
        self.pairing = self.controller.load_pairing("alias", dict(self.ids.pairing_data))
        if preload_accessories:
            self.pairing.restore_accessories_state(json.loads(json.dumps(self.db)), 1, None)
        limit = self.profile.get("concurrency_limit")
        if limit and limit > 1:
            # tuning knob of HomeKitConnection (constructor argument concurrency_limit, default 1) varied per run:
            # several requests may then be outstanding on one connection (HTTP/1.1 pipelining, answered in order)
            import asyncio as _asyncio

            self.pairing.connection._concurrency_limit = _asyncio.Semaphore(limit)
            self.ctx.probe("concurrency_limit_gt_1")
        return self.pairing

    def add_listener(self, name: str, raises: bool = False):
        log = self.listener_logs.setdefault(name, [])
        loop = self.loop

        def listener(event):
            log.append((round(loop.time(), 6), dict(event)))
            if raises and event:
                raise ValueError("listener failure injected")

        listener.__name__ = name
        return self.pairing.dispatcher_connect(listener), listener

    def description(self, addresses: list[str], port: int = 51826, config_num: int = 1, state_num: int = 1):
        from aiohomekit.model import Categories
        from aiohomekit.model.feature_flags import FeatureFlags
        from aiohomekit.model.status_flags import StatusFlags
        from aiohomekit.zeroconf import HomeKitService

        return HomeKitService(
            name="Sim", id=self.ids.acc.pairing_id, model="m", feature_flags=FeatureFlags(0), status_flags=StatusFlags(0),
            config_num=config_num, state_num=state_num, category=Categories(1), protocol_version="1.1",
            type="_hap._tcp.local.", address=addresses[0], addresses=list(addresses), port=port)

    def current_conn(self) -> SimConn | None:
        tr = getattr(self.pairing.connection, "transport", None)
        return tr.conn if isinstance(tr, SimTransport) else None

    def finish(self) -> None:
        seams.end()
