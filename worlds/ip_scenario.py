"""Scenario engine for the IP world: executes a plan (timed actor operations + profile) against
the real IpPairing on the simulated network, records the history, and evaluates the oracles
of C05, C08, C09, C10, C11, C12 during the run (idle-point invariants) and afterwards
(history checks).  Each check module picks its workload generator and reads its own
oracle family from the result.

Run shape: disturb (plan ops, faults per profile) -> heal (faults off, all addresses reach the
genuine accessory) -> quiescence interval -> judge.
"""

from __future__ import annotations

import asyncio
import json
import math
import re

from refimpl import crypto as RC
from refimpl import http as rhttp
from simkit.core import Chooser, Ctx
from simkit.loop import SimDeadlock, SimLoop, SimStepLimit
from worlds.ip import EPS, IpWorld, SimTransport

TOL = 1e-3  # virtual-time tolerance for "prompt" (covers call_soon chains; no real time involved)
_GET_RE = re.compile(r"^/characteristics\?id=(\d+\.\d+(?:,\d+\.\d+)*)$")


class Scenario:
    def __init__(self, plan: dict, ch: Chooser) -> None:
        self.plan = plan
        self.ctx = Ctx(ch)
        self.loop = SimLoop(max_iterations=plan.get("max_iterations", 60_000))
        self.w = IpWorld(self.ctx, self.loop, plan.get("profile", {}))
        self.w.acc.tag_reads = plan.get("tag_reads", True)
        self.calls: list[dict] = []
        self.wire: list[dict] = []
        self.mon: dict[int, dict] = {}
        self.abandoned: dict[int, float] = {}  # conn no -> time it was abandoned
        self.attempts: list[dict] = []
        self.in_attempt = 0
        self.triggers: list[tuple[float, str]] = []  # external triggers (desc update, close ...)
        self.closes: list[dict] = []
        self.closed_at: float | None = None
        self.shutdown_at: float | None = None
        self.first_shutdown_at: float | None = None
        self.reopened_after_close: list[float] = []
        self.healed_at: float | None = None
        self.legit_disturb: dict[int, list] = {}  # conn no -> last time something legitimately doomed it
        self.events: list[dict] = []
        self.listeners: dict[str, dict] = {}
        self.secure_marks: list[dict] = []  # successful secure connections: t_secure, t_connector_done, conn
        self.sub_started: set = set()
        self.unsub_started: set = set()
        self.fallback_allowed = False
        self.corrupt_armed: dict | None = None
        self.corrupted: list[dict] = []
        self.burst = None
        self.ev_after_resp: list[dict] = []  # event ops waiting to go out right behind the next secure response
        self.armed_on_accept: list[dict] = []  # ops waiting for the next established connection
        self.event_token = 0
        self.fatal: str | None = None
        self.resp_range: dict[int, tuple] = {}
        self.addr_updates: list[tuple[float, list]] = []
        self.value_hist: dict = {}
        self.sent_blobs: dict[int, list] = {}
        self.injected_frames = 0
        self.tainted: set[int] = set()  # connections that carried an injected unsolicited response
        self.unsolicited: list[dict] = []

    # ==================================================================================
    # run
    # ==================================================================================
    def run(self) -> Ctx:
        ctx, loop, w = self.ctx, self.loop, self.w
        try:
            loop.run_sim(self._main())
        except SimDeadlock as e:
            ctx.violate("SIM.deadlock", "", f"event loop deadlocked: {e}")
        except SimStepLimit as e:
            ctx.violate("C10.busy-loop", "step-limit", f"run exceeded the loop-iteration cap (busy loop?): {e}")
        finally:
            w.finish()
        ctx.probe("max_loop_iterations_bucket_%d" % min(6, len(str(loop._iterations))))
        return ctx

    async def _main(self) -> None:
        plan, loop, w, ctx = self.plan, self.loop, self.w, self.ctx
        p = w.make_pairing()
        self._wrap_connection(p.connection)
        w.net.write_monitors.append(self._on_write)
        w.net.pre_deliver = self._pre_deliver
        w.net.post_deliver = self._post_deliver
        world_accept = w.net.accept_cb

        def accept_cb(conn, world_accept=world_accept):
            if world_accept:
                world_accept(conn)
            self._on_accept_hook(conn)

        w.net.accept_cb = accept_cb
        w._orig_out = w.accessory_out
        w.accessory_out = self._accessory_out
        loop.on_idle = self._on_idle
        for name, spec in (plan.get("listeners") or {}).items():
            self._add_listener(name, spec)
        for i, op in enumerate(plan.get("ops", [])):
            loop.call_at(op["t"], self._do_op, op)
        heal_at = plan.get("heal_at", 60.0)
        end_at = plan.get("end_at", heal_at + 80.0)
        await asyncio.sleep(max(0.0, heal_at - loop.time()))
        if plan.get("heal", True):
            w.heal()
            self.healed_at = loop.time()
            hp = plan.get("heal_probe")
            if hp:
                # a caller keeps using the pairing after faults stop (drives reconnect-on-demand paths)
                for k in range(hp):
                    loop.call_at(loop.time() + 1.0 + 17.0 * k, self._do_op, {"op": "get", "ids": [[1, 10]], "probe": True})
        await asyncio.sleep(max(0.0, end_at - loop.time()))
        self._final_checks()
        loop.on_idle = None
        try:
            await p.shutdown()
        except BaseException:  # noqa: BLE001
            pass

    # ==================================================================================
    # instrumentation of the connection object (harness side, no repo change)
    # ==================================================================================
    def _wrap_connection(self, connection) -> None:
        sc = self
        orig_once = connection._connect_once

        async def connect_once_wrapper():
            loop = sc.loop
            rec = {"t0": loop.time(), "t1": None, "outcome": None, "overlap": sc.in_attempt > 0, "log0": len(sc.w.net.connect_log), "conn0": len(sc.w.net.conns),
                   "failed_hosts_before": sorted(getattr(connection, "_pair_verify_failed_hosts", ())),
                   "hosts": list(connection.hosts)}
            sc.attempts.append(rec)
            sc.ctx.event("attempt_start", len(sc.attempts))
            if sc.in_attempt > 0:
                sc.ctx.violate("C10.single-connector", "overlapping-attempts",
                               f"connection attempt #{len(sc.attempts)} started at t={loop.time():.3f} while another is in progress")
            if sc.shutdown_at is not None:
                sc.ctx.violate("C10.after-close", "attempt-after-shutdown",
                               f"connection attempt started at t={loop.time():.3f} after shutdown() at t={sc.shutdown_at:.3f}")
            sc.in_attempt += 1
            try:
                r = await orig_once()
                rec["outcome"] = "ok"
                cur = sc.w.current_conn()
                sc.secure_marks.append({"t": loop.time(), "conn": cur.no if cur else None, "attempt": len(sc.attempts)})
                sc._check_resubscribed(cur)
                return r
            except asyncio.CancelledError:
                rec["outcome"] = "cancelled"
                raise
            except BaseException as e:  # noqa: BLE001
                rec["outcome"] = type(e).__name__
                sc._check_unexplained_setup_failure(rec, e)
                raise
            finally:
                sc.in_attempt -= 1
                rec["t1"] = loop.time()
                rec["dialled"] = [_norm(c["host"]) for c in sc.w.net.connect_log[rec["log0"]:]]
                rec["established"] = [_norm(c.host) for c in sc.w.net.conns[rec["conn0"]:] if c.transport is not None]
                rec["n_hosts_after"] = len(connection.hosts)
                sc.ctx.event("attempt_end", rec["outcome"])
                sc.ctx.state("attempt", rec["outcome"], len(sc.w.net.client_open_conns()), bool(connection.closing))

        connection._connect_once = connect_once_wrapper

    def _check_unexplained_setup_failure(self, rec: dict, exc: BaseException) -> None:
        """C12: after a successful (re)connection the accessory is asked again for every subscription.  An attempt that reached the
        secure session with an HONEST accessory has only the re-subscription left to do; if it then dies of an exception that is
        neither a library error nor an I/O / time-out error (RuntimeError, KeyError, TypeError ... - nothing the peer or the network
        did), the re-subscription itself is broken."""
        from aiohomekit.exceptions import HomeKitException

        if isinstance(exc, (HomeKitException, OSError, asyncio.TimeoutError, EOFError)) or not isinstance(exc, Exception):
            return
        conns = [c for c in self.w.net.conns[rec["conn0"]:] if c.transport is not None]
        if not conns:
            return
        for c in conns:
            if self.w.conn_behaviour.get(c.no, {}).get("kind", "honest") != "honest" or not getattr(c.server, "secure", False):
                return
            if c.no in self.tainted or any(x["conn"] == c.no for x in self.corrupted):
                return
        self.ctx.obligations += 1
        self.ctx.violate("C12.resubscription-raises", type(exc).__name__,
                         f"t={self.loop.time():.3f}: connection attempt #{len(self.attempts)} reached a secure session with an honest accessory (conn "
                         f"{[c.no for c in conns]}) and then failed with {exc!r} - not an error of the peer or the network")

    # ==================================================================================
    # wire monitor (C09, C05 outbound, call<->connection mapping, C08 write-on-abandoned)
    # ==================================================================================
    def _on_write(self, conn, datas: list[bytes]) -> None:
        ctx = self.ctx
        sess = conn.server
        data = b"".join(datas)
        mon = self.mon.setdefault(conn.no, {"dec": None, "parser": rhttp.RequestParser(), "n": 0})
        secure = bool(getattr(sess, "secure", False))
        ctx.obligations += 1
        if conn.no in self.abandoned:
            ctx.violate("C08.write-on-abandoned", "",
                        f"request written at t={self.loop.time():.3f} on connection {conn.no} abandoned at t={self.abandoned[conn.no]:.3f}")
        if secure:
            if mon["dec"] is None:
                mon["dec"] = RC.FrameCodec(sess.verify.control_keys()[1])
            try:
                frames = mon["dec"].feed(data)
            except ValueError as e:
                ctx.violate("C05.outbound-undecodable", "", f"conn {conn.no}: reference deframer rejects controller frames: {e}")
                return
            if mon["dec"].buf:
                ctx.violate("C09.single-call", "partial-frame", f"conn {conn.no}: a transport call ended inside an encrypted frame")
            if any(len(f) > 1024 or len(f) == 0 for f in frames):
                ctx.violate("C05.frame-size", "", f"frame plaintext sizes {[len(f) for f in frames]}")
            if frames and any(len(f) != 1024 for f in frames[:-1]):
                ctx.probe("c05_non_maximal_inner_frame")
            plain = b"".join(frames)
            self.ctx.probe("secure_writes")
            if len(plain) >= 1023 and len(plain) % 1024 in (0, 1, 1023):
                self.ctx.probe({0: "request_exact_multiple_of_1024", 1: "request_multiple_of_1024_plus_1", 1023: "request_multiple_of_1024_minus_1"}[len(plain) % 1024])
            ctx.state("frames", min(len(frames), 6), len(plain) % 1024 in (0, 1, 1023))
        else:
            plain = data
        try:
            reqs = mon["parser"].feed(plain)
        except ValueError as e:
            ctx.violate("C09.grammar", "unparsable", f"conn {conn.no}: {e}")
            return
        if len(reqs) != 1 or mon["parser"].buf:
            ctx.violate("C09.single-call", "not-one-request",
                        f"conn {conn.no}: one transport call carried {len(reqs)} complete request(s) + {len(mon['parser'].buf)} stray bytes "
                        f"(datas={[len(d) for d in datas]})")
            mon["parser"].buf.clear()
        for r in reqs:
            probs = rhttp.canonical_problems(r.raw)
            host = conn.sock.peer[0]
            exp_host = f"Host: [{host}]" if ":" in host else f"Host: {host}"
            if r.raw.split(b"\r\n")[1:2] != [exp_host.encode()]:
                probs.append(f"host-mismatch|Host header {r.raw.split(b'\r\n')[1:2]!r} != {exp_host!r} for peer {host}")
            for pr in probs:
                code, _, text = pr.partition("|")
                ctx.violate("C09.canonical", code, f"conn {conn.no} {r.method} {r.target[:80]}: {text}")
            rec = {"conn": conn.no, "t": self.loop.time(), "method": r.method, "target": r.target, "body": r.body,
                   "secure": secure, "call": None, "raw_len": len(r.raw)}
            self.wire.append(rec)
            self._match_call(rec)
            ctx.probe("requests_checked")

    def _match_call(self, rec: dict) -> None:
        key = self._wire_key(rec)
        if key is None:
            return
        for c in self.calls:
            if c["t1"] is None and c.get("key") == key and c.get("conn") is None:
                c["conn"] = rec["conn"]
                c["t_written"] = rec["t"]
                rec["call"] = c["no"]
                return
        if any(c["t1"] is None and c.get("key") == key for c in self.calls):
            return  # several identical calls in flight: which one wrote this request is not observable
        if key[0] == "GET":
            self.ctx.violate("C09.ids", "", f"GET {rec['target']} does not correspond to the id set of any call in progress")

    def _wire_key(self, rec: dict):
        if rec["method"] == "GET":
            m = _GET_RE.match(rec["target"])
            if m:
                ids = frozenset(tuple(int(x) for x in part.split(".")) for part in m.group(1).split(","))
                if len(ids) != len(m.group(1).split(",")):
                    self.ctx.violate("C09.ids", "duplicate", f"duplicate ids in {rec['target']}")
                return ("GET", ids)
            if rec["target"].startswith("/characteristics"):
                self.ctx.violate("C09.ids", "grammar", f"characteristics target not aid.iid joined by commas: {rec['target']!r}")
            if rec["target"] == "/accessories":
                return ("LIST",)
            return None
        if rec["method"] == "PUT" and rec["target"] == "/characteristics":
            try:
                body = json.loads(rec["body"])
                items = body["characteristics"]
                if any("ev" in it for it in items):
                    return ("EV", frozenset((it["aid"], it["iid"], it["ev"]) for it in items))
                return ("PUT", frozenset((it["aid"], it["iid"], json.dumps(it["value"])) for it in items))
            except Exception:  # noqa: BLE001
                return None
        return None

    # ==================================================================================
    # accessory output interception: corruption, bursts, event bookkeeping
    # ==================================================================================
    def _accessory_out(self, session, data: bytes, kind: str, serial) -> None:
        conn = session.conn
        if self.corrupt_armed and session.secure and kind in ("response", "event") and len(data) > 20:
            spec = self.corrupt_armed
            self.corrupt_armed = None
            data = self._corrupt(conn, data, spec)
        if self.burst is not None and kind == "event":
            self.burst.append(data)
            return
        if session.secure and kind in ("response", "event"):
            self.sent_blobs.setdefault(session.no, []).append(data)
        if serial is not None:
            self.resp_range[serial] = (conn.no, conn.queued_a2c, conn.queued_a2c + len(data))
        self.w._orig_out(session, data, kind, serial)
        if kind == "response" and session.secure and self.ev_after_resp and session is self._current_session() and not session.closed:
            # an armed event goes out right behind this response (a write that changes another characteristic, a subscription
            # acknowledged while the value is changing): both reach the controller in the same read
            op = self.ev_after_resp.pop(0)
            self.ctx.probe("event_sent_right_behind_a_response")
            conn.force_coalesce = True
            try:
                self._send_events(op)
            finally:
                conn.force_coalesce = False

    def _corrupt(self, conn, data: bytes, spec: dict) -> bytes:
        # walk frames
        frames = []
        i = 0
        while i + 2 <= len(data):
            n = int.from_bytes(data[i : i + 2], "little")
            frames.append((i, n))
            i += 2 + n + 16
        k = spec.get("frame", 0) % len(frames)
        off, n = frames[k]
        where = spec["where"]
        if where == "len":
            pos = off + (spec.get("pos", 0) % 2)
        elif where == "tag":
            pos = off + 2 + n + (spec.get("pos", 0) % 16)
        else:
            pos = off + 2 + (spec.get("pos", 0) % max(1, n))
        ba = bytearray(data)
        ba[pos] ^= 1 << (spec.get("bit", 0) % 8)
        # stream offset (on this connection) at which the corrupted frame ends
        self.corrupted.append({"conn": conn.no, "where": where, "t": self.loop.time(),
                               "frame_start": conn.queued_a2c + off, "frame_end": conn.queued_a2c + off + 2 + n + 16,
                               "t_full": None, "delivered_after": []})
        self.ctx.probe("corrupt_" + where)
        self.legit_disturb.setdefault(conn.no, []).append(self.loop.time())
        return bytes(ba)

    def _send_events(self, op: dict) -> None:
        sess = self._current_session()
        if sess is None or not sess.secure or sess.closed:
            self.ctx.probe("event_skipped_no_session")
            return
        if not sess.c2a_frames:
            # an accessory only notifies on a connection that registered for events, i.e. one that has already carried an
            # encrypted request; encrypted bytes right behind the final pair-verify reply could share a read with it and be
            # parsed by the still-plaintext protocol - a peer fault outside every property here
            self.ctx.probe("event_skipped_session_not_yet_used")
            return
        conn = sess.conn
        n = op.get("n", 1)
        self.burst = [] if n > 1 or op.get("raw") is not None else None
        recs = []
        for j in range(n):
            self.event_token += 1
            tok = -self.event_token  # negative: cannot collide with tagged read values
            chars = [(a, i, tok) for a, i in op.get("ids", [[1, 10]])]
            if op.get("pad"):
                chars.append((2, 33, "p" * op["pad"] + str(tok)))
            raw = None
            if op.get("raw") == "empty":
                raw = b""
            elif op.get("raw") == "nonjson":
                raw = b"<html>not json</html>"
            rec = {"token": tok, "chars": chars, "conn": conn.no, "pad": op.get("pad"), "t_sent": self.loop.time(), "valid": raw is None,
                   "end_offset": None, "delivered": False, "listeners": None}
            if self.burst is None:
                sess.send_event(chars, raw)
                rec["end_offset"] = conn.queued_a2c
                if raw is None:
                    # a real accessory notifies EVERY connection on which the characteristic is registered: if the controller holds a
                    # second open, subscribed connection, its listeners hear the event twice
                    for other in self.w.acc.sessions:
                        oc = getattr(other, "conn", None)
                        if other is sess or oc is None or not other.secure or other.closed or not oc.client_open or not oc.server_open:
                            continue
                        if any((a, i) in other.subscriptions for a, i, _ in chars):
                            self.ctx.probe("event_also_sent_on_another_open_connection")
                            other.send_event(chars, raw)
            else:
                sess.send_event(chars, raw)
            recs.append(rec)
            self.events.append(rec)
        if self.burst is not None:
            joined = b"".join(self.burst)
            sizes = [len(b) for b in self.burst]
            self.burst = None
            base = conn.queued_a2c
            acc = 0
            for rec, sz in zip(recs, sizes):
                acc += sz
                rec["end_offset"] = base + acc
            self.w._orig_out(sess, joined, "event", None)
        self.ctx.probe("events_sent", n)

    def _pre_deliver(self, conn) -> None:
        self._snap = sorted(name for name, l in self.listeners.items() if l["active"])

    def _post_deliver(self, conn) -> None:
        for ev in self.events:
            if ev["conn"] == conn.no and not ev["delivered"] and ev["end_offset"] is not None and conn.bytes_a2c >= ev["end_offset"]:
                ev["delivered"] = True
                ev["listeners"] = self._snap
                ev["t_delivered"] = self.loop.time()
        for c in self.corrupted:
            if c["conn"] == conn.no and c["t_full"] is None and conn.bytes_a2c >= c["frame_end"]:
                c["t_full"] = self.loop.time()
        for u in self.unsolicited:
            if u["conn"] == conn.no and not u["done"] and conn.bytes_a2c >= u["end_offset"]:
                u["done"] = True
                if not any(c["conn"] == conn.no and c["t1"] is None for c in self.calls):
                    # arrived while no request was outstanding: the connection must be abandoned
                    self.abandoned.setdefault(conn.no, self.loop.time() + TOL)
                    self.ctx.probe("unsolicited_delivered_while_idle")

    # ==================================================================================
    # listeners
    # ==================================================================================
    def _add_listener(self, name: str, spec: dict) -> None:
        sc = self
        log: list = []
        entry = {"log": log, "active": True, "raises": spec.get("raises", False), "self_remove": spec.get("self_remove", False),
                 "unsub": None, "added_at": self.loop.time(), "removed_at": None}

        def listener(event):
            log.append((sc.loop.time(), json.loads(json.dumps({f"{k[0]}.{k[1]}": v for k, v in event.items()}))))
            if event and entry["self_remove"] and entry["active"]:
                entry["active"] = False
                entry["removed_at"] = sc.loop.time()
                sc.ctx.probe("listener_self_removed_in_callback")
                entry["unsub"]()
            if not event and spec.get("on_back") and entry["active"] and sc.first_shutdown_at is None:
                # a listener that reacts to "the connection is back" by issuing a call of its own (an application re-reading or
                # subscribing to something new): the call starts a few loop iterations later, i.e. while the connector is still
                # re-subscribing on the new connection
                k = entry["back_seen"] = entry.get("back_seen", 0) + 1
                ob = spec["on_back"]
                if k >= ob.get("from", 1) and k < ob.get("from", 1) + ob.get("times", 1):
                    sc.ctx.probe("listener_called_api_on_connection_back")
                    sc._do_op(dict(ob["op"], ticks=ob.get("ticks", 0) + 1))
            if event and spec.get("adds") and spec["adds"] not in sc.listeners:
                # a listener that registers a further listener from inside its callback (while the dispatch is running)
                sc.ctx.probe("listener_registered_in_callback")
                sc._add_listener(spec["adds"], {})
                sc.listeners[spec["adds"]]["added_in_callback"] = True
            if event and entry["raises"]:
                sc.ctx.probe("listener_raised")
                raise ValueError("listener failure injected by the simulator")

        entry["unsub"] = self.w.pairing.dispatcher_connect(listener)
        self.listeners[name] = entry

    # ==================================================================================
    # operations
    # ==================================================================================
    def _current_session(self):
        conn = self.w.current_conn()
        if conn is None:
            return None
        return conn.server

    def _on_accept_hook(self, conn) -> None:
        """operations armed with on_accept run n loop iterations after the next connection is established (the instant the
        controller's connect() completes): aims a close / trigger at the few iterations in which the connector is between
        'socket connected' and 'transport created'"""
        armed, self.armed_on_accept = self.armed_on_accept, []
        for op in armed:
            self.ctx.probe("op_fired_on_accept")
            op = {k: v for k, v in op.items() if k != "on_accept"}
            self._do_op(dict(op, ticks=op.get("ticks", 0) + 1))  # never re-entrantly from inside the connect call

    def _do_op(self, op: dict) -> None:
        if op.get("on_accept"):
            self.armed_on_accept.append(op)
            return
        if op.get("ticks", 0) > 0:  # tick-level placement: start this operation n event-loop iterations later
            self.loop.call_soon(self._do_op, dict(op, ticks=op["ticks"] - 1))
            return
        kind = op["op"]
        w, loop, ctx = self.w, self.loop, self.ctx
        ctx.event("op", kind)
        if kind in ("get", "put", "list", "subscribe", "unsubscribe", "list_pairings", "identify"):
            if self.shutdown_at is not None and not op.get("probe"):
                pass
            self._start_call(op)
        elif kind == "cancel_call":
            # the caller of the oldest unfinished request gives up right now
            for c in self.calls:
                if c["t1"] is None and c.get("task") is not None and not c["task"].done():
                    c["cancelled_by_plan"] = True
                    if c["conn"] is not None:
                        self.legit_disturb.setdefault(c["conn"], []).append(loop.time())
                    ctx.probe("caller_cancelled")
                    c["task"].cancel()
                    break
        elif kind in ("rst", "fin"):
            if kind == "rst" and op.get("then") and w.net.rst_window_hops:
                # controller actions placed inside the window in which the RST has arrived but is not yet processed
                then, k = op["then"], op.get("then_ticks", 0)
                w.net.on_rst_pending = lambda conn, then=then, k=k: (setattr(w.net, "on_rst_pending", None), self._do_op(dict(then, ticks=k)))
            sess = self._current_session()
            if sess is not None and not sess.closed:
                self.legit_disturb.setdefault(sess.conn.no, []).append(loop.time())
                sess.conn.server_close(kind, delay=op.get("delay"))
                ctx.probe("peer_" + kind)
            else:
                ctx.probe("peer_close_skipped")
        elif kind == "close_old":
            cur = w.current_conn()
            olds = [c for c in w.net.conns if c.server_open and c is not cur and c.transport is not None]
            if olds:
                c = olds[op.get("which", 0) % len(olds)]
                c.server_close(op.get("how", "fin"))
                ctx.probe("peer_closed_old_connection")
        elif kind == "event":
            if op.get("after_response"):
                self.ev_after_resp.append(op)
            else:
                self._send_events(op)
        elif kind == "unsolicited":
            sess = self._current_session()
            busy = any(c["t1"] is None for c in self.calls) or self.in_attempt > 0
            if sess is not None and sess.secure and not sess.closed and not busy:
                self.legit_disturb.setdefault(sess.conn.no, []).append(loop.time())
                self.tainted.add(sess.conn.no)
                sess._out(rhttp.response(200, rhttp.compact_json({"characteristics": [{"aid": 1, "iid": 10, "value": 424242}]})), "unsolicited", None)
                self.unsolicited.append({"conn": sess.conn.no, "end_offset": sess.conn.queued_a2c, "done": False})
                ctx.probe("unsolicited_response_while_idle")
            else:
                ctx.probe("unsolicited_skipped")
        elif kind in ("replay_frame", "future_frame"):
            sess = self._current_session()
            if sess is None or not sess.secure or sess.closed:
                ctx.probe("frame_injection_skipped")
                return
            blobs = self.sent_blobs.get(sess.no, [])
            if kind == "replay_frame":
                if not blobs:
                    ctx.probe("frame_injection_skipped")
                    return
                data = blobs[op.get("which", 0) % len(blobs)]
                ctx.probe("replayed_frame_injected")
            else:
                enc = sess.enc
                saved = enc.counter
                enc.counter = saved + op.get("k", 1)
                data = enc.seal_frame(b"EVENT/1.0 200 OK\r\nContent-Type: application/hap+json\r\nContent-Length: 2\r\n\r\n{}")
                enc.counter = saved
                ctx.probe("future_frame_injected")
            self.legit_disturb.setdefault(sess.conn.no, []).append(loop.time())
            self.tainted.add(sess.conn.no)
            self.injected_frames += 1
            self.w._orig_out(sess, data, "injected", None)
        elif kind == "desc_update":
            self.triggers.append((loop.time(), "desc_update"))
            self.addr_updates.append((loop.time(), [_norm(a) for a in op["addrs"]]))
            try:
                w.pairing._async_description_update(w.description(op["addrs"], config_num=op.get("c", 1), state_num=op.get("s", 1)))
            except Exception as e:  # noqa: BLE001
                ctx.violate("C10.desc-update-raises", type(e).__name__, f"_async_description_update raised {e!r}")
        elif kind == "set_host":
            w.set_host(op["host"], op["kind"])
        elif kind == "stall":
            w.stall_all = op.get("on", True)
        elif kind in ("close", "shutdown"):
            self._start_close(kind, op.get("cancel_ticks"))
        elif kind == "corrupt":
            self.corrupt_armed = {"where": op["where"], "frame": op.get("frame", 0), "pos": op.get("pos", 0), "bit": op.get("bit", 0)}
        elif kind == "add_listener":
            if op["name"] not in self.listeners:
                self._add_listener(op["name"], op)
        elif kind == "remove_listener":
            l = self.listeners.get(op["name"])
            if l and l["active"]:
                l["active"] = False
                l["removed_at"] = loop.time()
                l["unsub"]()
        elif kind == "refuse_ev":
            # the accessory (a bridge whose bridged device is away) answers requests for events on these characteristics with an error
            # status for a while; the caller's subscription stands and must be asked for again on every later connection
            for a, i in [tuple(x) for x in op["ids"]]:
                if op.get("on", True):
                    w.status_plan[("e", a, i)] = op.get("status", -70402)
                else:
                    w.status_plan.pop(("e", a, i), None)
            ctx.probe("accessory_refuses_events" if op.get("on", True) else "accessory_accepts_events_again")
        elif kind == "big_value":
            key = (op["aid"], op["iid"])
            self.value_hist.setdefault(key, [(0.0, w.acc.values.get(key))]).append((loop.time(), "v" * op["n"]))
            w.acc.values[key] = "v" * op["n"]
        else:
            raise ValueError(f"unknown op {kind}")

    def _start_close(self, kind: str, cancel_ticks: int | None = None) -> None:
        loop, ctx = self.loop, self.ctx
        rec = {"kind": kind, "t0": loop.time(), "t1": None, "exc": None, "cancelled_by_plan": False}
        self.closes.append(rec)
        self.triggers.append((loop.time(), kind))
        self.closed_at = loop.time()
        for c in self.w.net.conns:
            self.legit_disturb.setdefault(c.no, []).append(loop.time())

        async def runner():
            try:
                if kind == "shutdown":
                    self.shutdown_at = loop.time()
                    if self.first_shutdown_at is None:
                        self.first_shutdown_at = loop.time()
                    self.shutdown_seq = len(ctx.log)
                rec["t_invoked"] = loop.time()
                await (self.w.pairing.shutdown() if kind == "shutdown" else self.w.pairing.close())
            except BaseException as e:  # noqa: BLE001
                rec["exc"] = type(e).__name__
                if not (rec["cancelled_by_plan"] and isinstance(e, asyncio.CancelledError)):
                    ctx.violate("C11.close-raises", f"{kind}/{type(e).__name__}", f"{kind}() raised {e!r}")
            finally:
                rec["t1"] = loop.time()
                ctx.obligations += 1

        task = loop.create_task(runner())
        if cancel_ticks is not None:
            # the application gives up on the call (its own time-out, an unload task being cancelled) n loop iterations in: the call
            # may end with CancelledError, but a pairing that was told to close must still not keep a connection
            def cancel(n=cancel_ticks):
                if n > 0:
                    loop.call_soon(cancel, n - 1)
                elif not task.done():
                    rec["cancelled_by_plan"] = True
                    ctx.probe("close_call_cancelled_by_its_caller")
                    task.cancel()

            loop.call_soon(cancel)

    def _start_call(self, op: dict) -> None:
        loop, ctx, w = self.loop, self.ctx, self.w
        p = w.pairing
        kind = op["op"]
        no = len(self.calls)
        rec = {"no": no, "op": kind, "t0": loop.time(), "t1": None, "outcome": None, "exc": None, "result": None, "conn": None,
               "t_written": None, "cancel_after": op.get("cancel_after"), "own_timeout": op.get("own_timeout"),
               "cancelled_by_plan": False, "probe": op.get("probe", False), "connected_at_start": bool(p.is_connected)}
        ids = [tuple(x) for x in op.get("ids", [])]
        if kind == "get":
            rec["key"] = ("GET", frozenset(ids))
            coro = p.get_characteristics(ids)
        elif kind == "put":
            items = [tuple(x) for x in op["items"]]
            rec["key"] = ("PUT", frozenset((a, i, json.dumps(v)) for a, i, v in items))
            rec["items"] = items
            coro = p.put_characteristics(items)
        elif kind == "list":
            rec["key"] = ("LIST",)
            coro = p.list_accessories_and_characteristics()
        elif kind == "subscribe":
            self.sub_started.update(ids)
            self.unsub_started.difference_update(ids)
            coro = p.subscribe(ids)
        elif kind == "unsubscribe":
            self.unsub_started.update(ids)
            coro = p.unsubscribe(ids)
        elif kind == "list_pairings":
            coro = p.list_pairings()
        else:
            coro = p.identify()
        rec["ids"] = ids
        self.calls.append(rec)

        async def runner():
            try:
                if rec["own_timeout"]:
                    async with asyncio.timeout(rec["own_timeout"]):
                        res = await coro
                else:
                    res = await coro
                rec["outcome"] = "ok"
                rec["result"] = res
            except asyncio.CancelledError:
                rec["outcome"] = "exc"
                rec["exc"] = "CancelledError"
            except BaseException as e:  # noqa: BLE001
                rec["outcome"] = "exc"
                rec["exc"] = type(e).__name__
                rec["exc_obj"] = e
            finally:
                rec["t1"] = loop.time()
                self._call_done(rec)

        task = loop.create_task(runner())
        rec["task"] = task
        if rec["cancel_after"] is not None:
            def do_cancel():
                if not task.done():
                    rec["cancelled_by_plan"] = True
                    if rec["conn"] is not None:
                        self.legit_disturb.setdefault(rec["conn"], []).append(loop.time())
                    ctx.probe("caller_cancelled")
                    task.cancel()

            loop.call_later(rec["cancel_after"], do_cancel)

    # ==================================================================================
    # per-call oracle (C08)
    # ==================================================================================
    def _call_done(self, rec: dict) -> None:
        from aiohomekit.exceptions import AccessoryDisconnectedError, AuthenticationError

        ctx, loop = self.ctx, self.loop
        ctx.event("call_done", rec["op"], rec["outcome"], rec["exc"])
        ctx.obligations += 1
        t1 = rec["t1"]
        conn_no = rec["conn"]
        if rec["outcome"] == "exc":
            e = rec.get("exc_obj")
            name = rec["exc"]
            from aiohomekit.exceptions import HttpErrorResponse

            if conn_no is not None and not isinstance(e, HttpErrorResponse) and (
                    name == "CancelledError" or isinstance(e, (AccessoryDisconnectedError, TimeoutError, asyncio.TimeoutError))):
                # timed out / cancelled / dropped: the connection this request was written on is out of
                # sync and must be abandoned (a complete 4xx reply leaves the connection in sync)
                self.abandoned.setdefault(conn_no, t1 + TOL)
                self.legit_disturb.setdefault(conn_no, []).append(t1)
            if name == "CancelledError":
                if not rec["cancelled_by_plan"] and not self._close_overlaps(rec):
                    ctx.violate("C08.exception-class", "spurious-CancelledError",
                                f"call #{rec['no']} {rec['op']} got CancelledError without being cancelled (t={t1:.3f})")
            elif name == "TimeoutError" and rec["own_timeout"] and not isinstance(e, AccessoryDisconnectedError):
                if conn_no is not None:
                    self.legit_disturb.setdefault(conn_no, []).append(t1)
            elif isinstance(e, (AccessoryDisconnectedError, AuthenticationError)):
                pass
            else:
                if rec["op"] in ("get", "put", "list") and not self.plan.get("allow_other_exceptions") and conn_no not in self.tainted:
                    ctx.violate("C08.exception-class", name, f"call #{rec['no']} {rec['op']} failed with {name}: {e!r} (expected a disconnection error)")
        # (d) promptness
        if rec["t_written"] is not None and rec["own_timeout"] is None:
            if t1 > rec["t_written"] + 30.0 + TOL:
                ctx.violate("C08.late-completion", "after-30s",
                            f"call #{rec['no']} completed {t1 - rec['t_written']:.3f}s after its request was written (limit 30s)")
        if self.plan.get("check_values") and rec["outcome"] == "ok":
            acc = self.w.acc
            if rec["op"] == "get":
                for key in rec["ids"]:
                    got = rec["result"].get(key, {}).get("value", "<absent>")
                    hist = self.value_hist.get(key)
                    if hist:
                        # values the characteristic held at some instant between the start and the end of the call
                        ok_vals = [v for i, (tv, v) in enumerate(hist) if tv <= rec["t1"] and (i + 1 == len(hist) or hist[i + 1][0] >= rec["t0"])]
                        if got in ok_vals:
                            continue
                    if got != acc.values.get(key):
                        ctx.violate("C05.inbound-content", "read-value",
                                    f"call #{rec['no']}: value of {key} differs from what the accessory sent (len {len(str(got))} vs {len(str(acc.values.get(key)))})")
            elif rec["op"] == "put":
                for a, i, v in rec["items"]:
                    if acc.values.get((a, i)) != v:
                        ctx.violate("C05.outbound-content", "written-value",
                                    f"call #{rec['no']}: accessory decoded a different value for {(a, i)} than the caller wrote (len {len(str(v))})")
        if conn_no is not None:
            cobj = self.w.net.conns[conn_no]
            if cobj.client_close_reason == "eof" and cobj.t_client_closed is not None and rec["t_written"] <= cobj.t_client_closed and t1 > cobj.t_client_closed + TOL:
                # the peer closed the connection (FIN processed): the request outstanding on it fails now, not when the transport
                # has finished flushing or when the 30 s timer fires
                ctx.violate("C08.late-completion", "after-peer-eof",
                            f"call #{rec['no']} was outstanding on connection {conn_no} when the peer's FIN was processed at t={cobj.t_client_closed:.3f} "
                            f"but completed only at t={t1:.3f} ({rec['exc']})")
            tl = self.w.net.conns[conn_no].t_lost_cb
            if tl is not None and rec["t_written"] <= tl and t1 > tl + TOL:
                ctx.violate("C08.late-completion", "after-connection-loss",
                            f"call #{rec['no']} was outstanding on connection {conn_no} when it was lost at t={tl:.3f} but completed only at t={t1:.3f} ({rec['exc']})")
        # attribution
        if rec["outcome"] == "ok" and rec["op"] == "get" and self.w.acc.tag_reads and conn_no not in self.tainted:
            res = rec["result"]
            want = set(rec["ids"])
            if set(res.keys()) != want:
                ctx.violate("C08.misattributed", "keys", f"call #{rec['no']} asked {sorted(want)} got keys {sorted(res.keys())}")
            else:
                for key, val in res.items():
                    v = val.get("value")
                    if isinstance(v, int) and not isinstance(v, bool) and v > 0:
                        serial = v // 1000
                        log = self.w.acc.request_log
                        ent = log[serial - 1] if 0 < serial <= len(log) else None
                        ok = ent is not None and ent["method"] == "GET"
                        if ok:
                            m = _GET_RE.match(ent["target"])
                            ids = {tuple(int(x) for x in part.split(".")) for part in m.group(1).split(",")} if m else set()
                            ok = ids == want
                            sess = self.w.acc.sessions[ent["session"]]
                            if ok and conn_no is not None and sess.conn.no != conn_no:
                                ok = False
                        if not ok:
                            ctx.violate("C08.misattributed", "serial",
                                        f"call #{rec['no']} for {sorted(want)} on conn {conn_no} received value {v} produced for request {ent and (ent['target'], ent['session'])}")
                    elif isinstance(v, int) and not isinstance(v, bool) and v < 0:
                        ctx.violate("C08.event-as-response", "", f"call #{rec['no']} received event token {v} as a read value")
                    elif "status" in val:
                        pass
        self.ctx.state("call", rec["op"], rec["outcome"], rec["exc"], rec["connected_at_start"], conn_no is not None)

    def _close_overlaps(self, rec: dict) -> bool:
        return any(c["t0"] <= rec["t1"] + TOL and (c["t1"] is None or c["t1"] >= rec["t0"] - TOL) for c in self.closes)

    # ==================================================================================
    # idle-point invariants (C11, C10, C08)
    # ==================================================================================
    def _on_idle(self) -> None:
        ctx, w, loop = self.ctx, self.w, self.loop
        now = loop.time()
        ctx.obligations += 1
        open_conns = w.net.client_open_conns()
        cur = w.current_conn()
        closing_now = any(c["t1"] is None for c in self.closes)
        leaked = [c for c in open_conns if c is not cur]
        for c in leaked:
            beh = w.conn_behaviour.get(c.no, {}).get("kind", "?")
            last_attempt = next((a for a in reversed(self.attempts) if a["t0"] <= c.t_open + TOL), None)
            how = last_attempt["outcome"] if last_attempt and last_attempt["outcome"] else "in-progress"
            if c.transport is None and self.in_attempt > 0 and how == "in-progress":
                continue  # socket just connected inside start_connection; transport not yet created
            ctx.violate("C11.leak", f"attempt={how}",
                        f"t={now:.3f}: connection {c.no} (opened t={c.t_open:.3f}, accessory behaviour {beh}, attempt outcome {how}) is still held open "
                        f"by the controller although it is not the connection in use (in use: {cur.no if cur else None}); "
                        f"{len(open_conns)} open in total")
        if len(open_conns) > 1 and not leaked:
            ctx.violate("C11.multiple-open", "", f"t={now:.3f}: {len(open_conns)} connections open")
        # closed pairing holds nothing
        for cl in self.closes:
            if cl["t1"] is not None and not cl.get("checked"):
                cl["checked"] = True
                if open_conns and not self.reopened_since(cl["t1"]):
                    ctx.violate("C11.open-after-close", cl["kind"],
                                f"{cl['kind']}() returned at t={cl['t1']:.3f} but connection(s) {[c.no for c in open_conns]} are still open")
        # shutdown() is irreversible: once it has returned the pairing never holds a connection again
        for cl in self.closes:
            if cl["kind"] == "shutdown" and cl["t1"] is not None and cl["exc"] is None and open_conns and now >= cl["t1"] and not cl.get("flagged"):
                held = [c.no for c in open_conns if c.transport is not None or now > c.t_open + TOL]
                if held:
                    cl["flagged"] = True
                    ctx.violate("C11.open-after-close", "after-shutdown-returned",
                                f"shutdown() returned at t={cl['t1']:.3f} but at t={now:.3f} the pairing holds connection(s) {held}")
        # abandoned connections must be closed by the controller promptly
        for c in open_conns:
            t = self.abandoned.get(c.no)
            if t is not None and now > t + TOL:
                ctx.violate("C08.not-abandoned", "", f"connection {c.no} had a failed/cancelled/timed-out request at t={t:.3f} but is still open at t={now:.3f}")
        ctx.state("idle", len(open_conns), cur is not None, bool(w.pairing.connection.is_connected), self.in_attempt,
                  bool(w.pairing.connection.closing), sum(1 for c in self.calls if c["t1"] is None))

    def reopened_since(self, t: float) -> bool:
        return any(a["t0"] >= t - TOL for a in self.attempts)

    # ==================================================================================
    # C12: re-subscription at the end of every successful secure connection attempt
    # ==================================================================================
    def _check_resubscribed(self, conn) -> None:
        ctx = self.ctx
        if conn is None:
            return
        sess = conn.server
        # ids the connector itself is responsible for: subscribed by a call that had completed before
        # this attempt began and not touched by any unsubscribe call that was still running / started
        # after that subscribe began.  (Calls still in flight send their own request.)
        now = self.loop.time()
        t_attempt = self.attempts[-1]["t0"] if self.attempts else now
        desired = set()
        for sc_ in self.calls:
            if sc_["op"] != "subscribe" or sc_["t1"] is None or sc_["t1"] > t_attempt:
                continue
            for ident in sc_["ids"]:
                if not any(u["op"] == "unsubscribe" and ident in u["ids"] and (u["t1"] is None or u["t1"] >= sc_["t0"] - TOL) for u in self.calls):
                    desired.add(ident)
        # a subscribe request cut off by a disconnection legitimately switches the library to polling
        self._mark_answered()
        for wr in self.wire:
            if wr["method"] == "PUT" and b'"ev":true' in wr["body"]:
                c = self.w.net.conns[wr["conn"]]
                if not c.client_open or not c.server_open:
                    if not wr.get("answered"):
                        self.fallback_allowed = True
        # ... as does a subscribe() call that ran into a connection loss before its request was written
        for sc_ in self.calls:
            if sc_["op"] == "subscribe":
                t_end = sc_["t1"] if sc_["t1"] is not None else now
                if any(c.t_client_closed is not None and sc_["t0"] - TOL <= c.t_client_closed <= t_end + TOL for c in self.w.net.conns):
                    self.fallback_allowed = True
                # ... or that was issued while the connection was already closing but its loss had not been reported yet (the
                # transport is still flushing): the request fails with "Transport is closed"
                if any(c.t_client_closed is not None and c.t_client_closed <= sc_["t0"] + TOL and (c.t_lost_cb is None or c.t_lost_cb >= sc_["t0"] - TOL)
                       for c in self.w.net.conns):
                    self.fallback_allowed = True
        # ... and the connector's own re-subscription (inside connection setup) that ran into the loss of the connection it
        # had just verified: the request may never have been written, the library still falls back to polling
        for a in self.attempts:
            if a.get("t1") is None:
                continue
            for c in self.w.net.conns[a["conn0"]:]:
                if c.t_open > a["t1"] + TOL:
                    break
                closed_at = c.t_client_closed
                if getattr(c.server, "secure", False) and closed_at is not None and a["t0"] - TOL <= closed_at <= a["t1"] + TOL:
                    self.fallback_allowed = True
        if not desired:
            return
        if not conn.client_open or not conn.server_open or getattr(sess, "closed", False):
            ctx.probe("resub_check_skipped_conn_gone")
            return
        if self.fallback_allowed:
            ctx.probe("resub_check_skipped_polling_fallback")
            return
        ctx.obligations += 1
        ctx.probe("resub_checked")
        asked = set(getattr(sess, "ev_asked", sess.subscriptions)) | set(sess.subscriptions)
        missing = desired - asked
        if missing:
            ctx.violate("C12.not-resubscribed", "",
                        f"t={self.loop.time():.3f}: secure connection {conn.no} established and connector finished, but the accessory was not asked "
                        f"for events on {sorted(missing)} (asked on this connection: {sorted(asked)})")
        # connection-is-back notification
        t_est = None
        for name, l in self.listeners.items():
            if not l["active"] or l["added_at"] > conn.t_open:
                continue
            got = [t for t, ev in l["log"] if ev == {} and t >= conn.t_open - TOL]
            if not got:
                ctx.violate("C12.no-availability-notification", "",
                            f"listener {name} was not told that the connection is back (conn {conn.no}, t={self.loop.time():.3f})")

    # ==================================================================================
    # end-of-run history checks
    # ==================================================================================
    def _final_checks(self) -> None:
        self._mark_answered()
        self._check_calls_finished()
        self._check_events()
        self._check_corruption()
        self._check_reconnect()
        self._check_after_close()
        self._check_stale_loss()

    def _mark_answered(self) -> None:
        """a written request counts as answered when the accessory's complete response to it was delivered to the
        controller's transport (i-th secure request written on a connection = i-th secure request its session parsed)"""
        for conn in self.w.net.conns:
            sess = conn.server
            if sess is None or not hasattr(sess, "no") or getattr(sess, "acc", None) is not self.w.acc:
                continue
            wires = [wr for wr in self.wire if wr["conn"] == conn.no and wr["secure"]]
            if not wires or all(wr.get("answered") for wr in wires):
                continue
            entries = [e for e in self.w.acc.request_log if e["session"] == sess.no and e["secure"]]
            for wr, ent in zip(wires, entries):
                rng = self.resp_range.get(ent["serial"])
                if rng is not None and rng[0] == conn.no and rng[2] <= conn.bytes_a2c:
                    wr["answered"] = True

    def _check_calls_finished(self) -> None:
        ctx = self.ctx
        for c in self.calls:
            if c["t1"] is None:
                ctx.violate("C08.hang", c["op"], f"call #{c['no']} {c['op']} started t={c['t0']:.3f} never completed (now t={self.loop.time():.3f}); "
                                                  f"written on conn {c['conn']} at {c['t_written']}")
        # every pending-request list must be empty at quiescence is implied by the above

    def _check_events(self) -> None:
        ctx = self.ctx
        per_listener_expected: dict[str, list[int]] = {n: [] for n in self.listeners}
        for ev in self.events:
            if not ev["delivered"] or not ev["valid"]:
                continue
            if any(c["conn"] == ev["conn"] and c["frame_start"] < ev["end_offset"] for c in self.corrupted):
                continue
            for n in ev["listeners"] or []:
                per_listener_expected[n].append(ev["token"])
        for n, l in self.listeners.items():
            got = []
            for t, e in l["log"]:
                for k, v in e.items():
                    val = v.get("value") if isinstance(v, dict) else None
                    if isinstance(val, int) and val < 0:
                        got.append((val, k))
            exp_tokens = per_listener_expected[n]
            if l.get("added_in_callback"):
                # registered while an event was being dispatched: that one event may or may not reach it as well
                optional = {ev["token"] for ev in self.events if ev["delivered"] and ev["valid"] and n not in (ev["listeners"] or [])
                            and ev.get("t_delivered") is not None and abs(ev["t_delivered"] - l["added_at"]) <= TOL}
                seen = {v.get("value") for t, e in l["log"] for v in e.values() if isinstance(v, dict)}
                exp_tokens = sorted(set(exp_tokens) | (optional & seen), reverse=True) if optional & seen else exp_tokens
            if l["self_remove"]:
                exp_tokens = exp_tokens[:1]  # it unregisters itself while handling its first event
            ctx.obligations += 1
            # keyed by accessory and instance id
            for ev in self.events:
                if ev["delivered"] and ev["valid"] and ev.get("pad") and n in (ev["listeners"] or []) and not any(
                        c["conn"] == ev["conn"] and c["frame_start"] < ev["end_offset"] for c in self.corrupted):
                    want = ev["chars"][-1][2]
                    gotpad = [e.get("2.33", {}).get("value") for t, e in l["log"] if any(isinstance(v, dict) and v.get("value") == ev["token"] for v in e.values())]
                    if gotpad != [want]:
                        ctx.violate("C05.inbound-content", "event-value", f"listener {n}: padded event {ev['token']} content differs (got {len(gotpad)} deliveries)")
            for ev in self.events:
                if ev["delivered"] and ev["valid"] and n in (ev["listeners"] or []):
                    keys_got = sorted(k for tok, k in got if tok == ev["token"])
                    keys_exp = sorted(f"{a}.{i}" for a, i, v in ev["chars"] if isinstance(v, int))
                    if keys_got and keys_got != keys_exp:
                        ctx.violate("C12.event-keys", "", f"listener {n}: event {ev['token']} delivered under {keys_got}, sent for {keys_exp}")
            got_tokens = []
            for tok, _ in got:
                if not got_tokens or got_tokens[-1] != tok:
                    got_tokens.append(tok)
            # duplicates: the same token appearing in two separate callback invocations
            inv_tokens = []
            for t, e in l["log"]:
                toks = sorted({v.get("value") for v in e.values() if isinstance(v, dict) and isinstance(v.get("value"), int) and v.get("value") < 0})
                inv_tokens.extend(toks)
            if inv_tokens != exp_tokens:
                missing = [t for t in exp_tokens if t not in inv_tokens]
                dup = [t for t in set(inv_tokens) if inv_tokens.count(t) > 1]
                extra = [t for t in inv_tokens if t not in exp_tokens]
                kind = "missing" if missing else "duplicate" if dup else "extra" if extra else "order"
                raising = sorted(x for x, ll in self.listeners.items() if ll["raises"])
                selfrem = sorted(x for x, ll in self.listeners.items() if ll["self_remove"])
                attr = kind
                if kind == "missing" and selfrem:
                    attr = "missing-after-self-removal"
                elif kind == "missing" and raising:
                    attr = "missing-with-raising-listener"
                ctx.violate("C12.event-delivery", attr,
                            f"listener {n} (raises={l['raises']}): expected event tokens {exp_tokens[:12]} got {inv_tokens[:12]} "
                            f"(missing {missing[:6]}, duplicated {dup[:6]}, unexpected {extra[:6]}); raising listeners {raising}, self-removing {selfrem}")

    def _check_corruption(self) -> None:
        ctx = self.ctx
        for c in self.corrupted:
            conn = self.w.net.conns[c["conn"]]
            ctx.obligations += 1
            # nothing from the corrupted frame or later may reach the application
            for ev in self.events:
                if ev["conn"] == c["conn"] and ev["end_offset"] > c["frame_start"]:
                    for n, l in self.listeners.items():
                        if any(isinstance(v, dict) and v.get("value") == ev["token"] for t, e in l["log"] for v in e.values()):
                            ctx.violate("C05.corrupt-delivered", c["where"], f"event {ev['token']} at/after a corrupted frame reached listener {n}")
            # map calls to the accessory's responses: i-th secure request written on the connection
            # is the i-th secure request the accessory session parsed
            sess = conn.server
            wires = [wr for wr in self.wire if wr["conn"] == conn.no and wr["secure"]]
            entries = [e for e in self.w.acc.request_log if e["session"] == sess.no and e["secure"]]
            for wr, ent in zip(wires, entries):
                rng = self.resp_range.get(ent["serial"])
                if rng is None or wr["call"] is None:
                    continue
                call = self.calls[wr["call"]]
                if rng[2] > c["frame_start"] and call["outcome"] == "ok":
                    ctx.violate("C05.corrupt-delivered", c["where"],
                                f"call #{call['no']} completed normally although its response (stream bytes {rng[1]}..{rng[2]}) lies at/after the corrupted frame at {c['frame_start']} on conn {conn.no}")
            if c["where"] in ("ct", "tag") and c["t_full"] is not None:
                for call in self.calls:
                    if call.get("conn") == conn.no and call["t_written"] is not None and call["t_written"] <= c["t_full"] and (call["t1"] is None or call["t1"] > c["t_full"] + TOL):
                        ctx.violate("C05.corrupt-request-hangs", c["where"],
                                    f"a frame that fails authentication was fully received on conn {conn.no} at t={c['t_full']:.3f} while call #{call['no']} was outstanding on it; "
                                    f"the call completed only at t={call['t1']} ({call.get('exc')})")
                        break
                if conn.client_open or (conn.t_client_closed is not None and conn.t_client_closed > c["t_full"] + TOL):
                    ctx.violate("C05.corrupt-not-closed", c["where"],
                                f"corrupted frame fully received on conn {conn.no} at t={c['t_full']:.3f} but the controller closed at {conn.t_client_closed}")

    # ---- C10 -----------------------------------------------------------------------------------------
    def _check_reconnect(self) -> None:
        ctx, w = self.ctx, self.w
        at = self.attempts
        n_hosts = max(1, len(w.net.hosts))
        end = self.loop.time()
        auth_stop = {"AuthenticationError"}
        trig_times = [t for t, _ in self.triggers]

        def triggered(t0, t1):
            return any(t0 - TOL <= t <= t1 + TOL for t in trig_times)

        # 1/2: gaps after failed attempts
        prev_gap = None
        immediate_streak = 0
        for i, a in enumerate(at):
            if a["t1"] is None:
                continue
            nxt = at[i + 1] if i + 1 < len(at) else None
            failed = a["outcome"] not in ("ok", "cancelled")
            if a["outcome"] != "IncorrectPairingIdError":
                immediate_streak = 0
            if a["outcome"] == "ok":
                prev_gap = None
                immediate_streak = 0
                continue
            if a["outcome"] in auth_stop and nxt is not None:
                # an authentication failure may end the retries; if the library does try again on its own it is still a
                # retry after a failed attempt and must not come without delay (a caller or an update may start one at once)
                gap_a = nxt["t0"] - a["t1"]
                ctx.obligations += 1
                started_by_caller = any(a["t1"] - TOL <= c["t0"] <= nxt["t0"] + TOL for c in self.calls)
                if (gap_a < 0.5 - TOL and not started_by_caller and not triggered(a["t0"], nxt["t0"])
                        and not self._closed_between(a["t1"], nxt["t0"])):
                    ctx.violate("C10.backoff", "retry-without-delay-after-authentication-error",
                                f"attempt #{i + 1} ended with {a['outcome']} at t={a['t1']:.3f}; the next attempt started {gap_a:.3f}s later with no caller, update or close in between")
            if a["outcome"] == "cancelled" or a["outcome"] in auth_stop:
                prev_gap = None
                immediate_streak = 0
                continue
            # failed, retry expected
            closed_after = self._closed_between(a["t1"], (nxt["t0"] if nxt else end))
            if nxt is None:
                if not closed_after and end - a["t1"] > 60.0 + 1.0:
                    ctx.violate("C10.keeps-trying", "no-retry-after-failure",
                                f"attempt #{i + 1} failed ({a['outcome']}) at t={a['t1']:.3f}; no further attempt until t={end:.3f}")
                continue
            gap = nxt["t0"] - a["t1"]
            ctx.obligations += 1
            if closed_after:
                prev_gap = None
                immediate_streak = 0
                continue
            if gap > 60.0 + TOL:
                ctx.violate("C10.backoff", "gap-exceeds-60s", f"gap {gap:.3f}s after failed attempt #{i + 1} ({a['outcome']})")
            if triggered(a["t1"], nxt["t0"]):
                prev_gap = None
                ctx.probe("c10_triggered_gap")
                continue
            if a["outcome"] == "IncorrectPairingIdError" and gap < 0.5 - TOL and triggered(a["t0"], nxt["t0"]):
                # the advertised address set may have changed while the attempt ran: exclusions are reset
                immediate_streak = 0
                prev_gap = None
                continue
            if a["outcome"] == "IncorrectPairingIdError" and gap < 0.5 - TOL:
                # immediate retry is allowed only to move on to another advertised address, at most
                # once per address: the next attempt must not dial the address that just answered
                # with the wrong id, and a run of immediate retries is no longer than the address list
                wrong = set(a.get("established") or [])
                nxt_dialled = set(nxt.get("dialled") or []) if nxt["t1"] is not None else set()
                immediate_streak += 1
                ctx.probe("c10_immediate_next_address")
                if wrong & nxt_dialled:
                    ctx.violate("C10.backoff", "immediate-retry-same-address",
                                f"after wrong pairing id from {sorted(wrong)} the immediate retry (gap {gap:.3f}s) dialled {sorted(nxt_dialled)} again")
                elif immediate_streak > max(1, a.get("n_hosts_after", 1)):
                    ctx.violate("C10.backoff", "immediate-retry-streak",
                                f"{immediate_streak} immediate retries in a row with {a.get('n_hosts_after')} advertised addresses")
                continue
            immediate_streak = 0
            if gap < 0.5 - TOL:
                ctx.violate("C10.backoff", "retry-without-delay", f"gap {gap:.3f}s < 0.5s after failed attempt #{i + 1} ({a['outcome']}) with no external trigger")
            if prev_gap is not None and gap < prev_gap - TOL and gap < 60.0 - TOL:
                ctx.violate("C10.backoff", "not-growing", f"untriggered retry gaps shrink: {prev_gap:.3f}s then {gap:.3f}s")
            prev_gap = gap
        # 3: no busy loop - attempts that follow a FAILED attempt, per 10 s window (the immediate
        # reconnect after losing an established connection is by design and not counted)
        starts = [a["t0"] for i, a in enumerate(at) if i > 0 and at[i - 1]["outcome"] not in ("ok", "cancelled", None)]
        limit = (n_hosts + 1) + math.ceil(10 / 0.75) + 2 * sum(1 for t in trig_times)
        j = 0
        for i, t in enumerate(starts):
            while starts[j] < t - 10.0:
                j += 1
            if i - j + 1 > limit:
                ctx.violate("C10.busy-loop", "attempt-rate", f"{i - j + 1} retries after failed attempts within 10 s ending t={t:.3f} (limit {limit})")
                break
        # connection lost after success -> a new attempt follows (while open)
        for k, m in enumerate(self.secure_marks):
            conn = w.net.conns[m["conn"]] if m["conn"] is not None else None
            if conn is None or conn.client_open:
                continue
            t_lost = conn.t_client_closed
            later = [a for a in at if a["t0"] >= t_lost - TOL and a is not at[m["attempt"] - 1]]
            ctx.obligations += 1
            if not later and not self._closed_between(m["t"] - TOL, end) and end - t_lost > 60.0 + 1.0:
                # callers / probes may legitimately be needed? No: losing an established connection must start the connector.
                ctx.violate("C10.keeps-trying", "no-attempt-after-loss",
                            f"established connection {conn.no} was lost at t={t_lost:.3f} ({conn.client_close_reason}); no connection attempt followed until t={end:.3f}")
        # bounded liveness after heal
        if self.healed_at is not None and self.shutdown_at is None and not self._closed_between(self.healed_at - 1e9, end) and not self.plan.get("no_liveness"):
            stopped_by_auth = bool(at) and at[-1]["outcome"] in auth_stop
            if end - self.healed_at >= 140.0 and not stopped_by_auth and at:
                ctx.obligations += 1
                if not w.pairing.connection.is_connected:
                    last = at[-1] if at else None
                    ctx.violate("C10.keeps-trying", "not-reconnected-after-heal",
                                f"faults stopped at t={self.healed_at:.3f}; at t={end:.3f} the pairing is still not connected "
                                f"(last attempt: {last and (round(last['t0'], 3), last['outcome'])}, attempts: {len(at)})")
        # 6: an address-set change clears exclusions: the first attempt that starts after the advertised set
        # changed and that fails at the connect level (= every address it was willing to dial failed) must
        # have dialled every advertised address
        for k, a in enumerate(at):
            if a["t1"] is None or a["outcome"] not in ("ConnectionError", "TimeoutError"):
                continue
            ups = [(idx, t, addrs) for idx, (t, addrs) in enumerate(self.addr_updates) if t <= a["t0"] - 1e-9]
            if not ups:
                continue
            idx, t_upd, addrs = ups[-1]
            if any(t <= a["t1"] + TOL for (t, _) in self.addr_updates[idx + 1:]):
                continue  # another update arrived before / while this attempt ran
            if any(b["t0"] >= t_upd - 1e-9 for b in at[:k]):
                continue  # not the first attempt after that update
            new_set = set(addrs)
            if new_set == {_norm(h) for h in a["hosts"]}:
                continue  # the advertised set equals what the connection already used: no change
            ctx.obligations += 1
            ctx.probe("c10_address_change_checked")
            missing = new_set - set(a.get("dialled") or [])
            if missing:
                ctx.violate("C10.exclusion", "address-change-not-cleared",
                            f"advertised addresses changed to {sorted(new_set)} at t={t_upd:.3f}; the next attempt (t={a['t0']:.3f}, {a['outcome']}) dialled only "
                            f"{sorted(set(a.get('dialled') or []))}: {sorted(missing)} stayed excluded")
        # waiting callers
        from aiohomekit.exceptions import AccessoryDisconnectedError

        for c in self.calls:
            if c["t1"] is None or c["connected_at_start"] or c["own_timeout"] or c["cancel_after"] is not None:
                continue
            if self.first_shutdown_at is not None and c["t0"] >= self.first_shutdown_at - TOL:
                continue  # issued on a pairing that was being / had been shut down: no longer "while the pairing is open"
            if c["t_written"] is None and c["outcome"] == "exc":
                ctx.obligations += 1
                waited = c["t1"] - c["t0"]
                got_conn = any(m["t"] >= c["t0"] - TOL and m["t"] <= c["t0"] + 10.0 + TOL for m in self.secure_marks)
                if waited > 10.0 + TOL and c["op"] in ("get", "put", "list") and not got_conn:
                    ctx.violate("C10.waiting-caller", "late",
                                f"call #{c['no']} waited {waited:.3f}s although no connection became available within 10 s of t={c['t0']:.3f}")

    def _closed_between(self, t0: float, t1: float) -> bool:
        """a close()/shutdown() call was invoked or still running inside [t0, t1] (a call that began earlier and had not returned by
        t0 counts: close() waits for the connector, and a connector whose cancellation was swallowed - the staggered connect does
        that while it cancels its losers - runs to the end of its attempt first)"""
        return any(c["t0"] <= t1 + TOL and (c["t1"] is None or c["t1"] >= t0 - TOL) for c in self.closes)

    def _check_after_close(self) -> None:
        ctx = self.ctx
        for cl in self.closes:
            if cl["kind"] != "close" or cl["t1"] is None:
                continue
            # attempts after close() returned need a cause that arrived since close() was called
            for a in self.attempts:
                if a["t0"] > cl["t1"] + TOL:
                    cause = any(cl["t0"] - TOL <= t <= a["t0"] + TOL and k == "desc_update" for t, k in self.triggers) or \
                        any(cl["t0"] - TOL <= c["t0"] <= a["t0"] + TOL for c in self.calls)
                    later_close = any(c2["t0"] > cl["t0"] and c2["t0"] <= a["t0"] for c2 in self.closes if c2 is not cl)
                    if not cause and not later_close:
                        ctx.violate("C10.after-close", "spontaneous-attempt",
                                    f"close() returned at t={cl['t1']:.3f}; attempt started at t={a['t0']:.3f} without any request or update since")
                    break

    # ---- C11: loss of an abandoned connection must not disturb the one in use -------------------------------
    def _check_stale_loss(self) -> None:
        ctx, w = self.ctx, self.w
        marks = {m["conn"]: m for m in self.secure_marks if m["conn"] is not None}
        lost_cbs = [(e[0], e[2]) for e in ctx.log if len(e) > 2 and e[1] == "conn_lost_cb"]
        for no, m in marks.items():
            conn = w.net.conns[no]
            if conn.client_open or conn.client_close_reason != "transport.close":
                continue
            if w.conn_behaviour.get(no, {}).get("kind", "honest") != "honest":
                continue  # e.g. an HTTP error during verify makes the library close that connection itself
            tc = conn.t_client_closed
            if any(tc - 30.0 - TOL <= lg <= tc + TOL for lg in self.legit_disturb.get(no, [])):
                continue
            if conn.peer_closed_first:
                continue
            if any(abs(wr["t"] + 30.0 - tc) <= TOL for wr in self.wire if wr["conn"] == no):
                continue  # a request written on it (possibly the connector's own re-subscription) hit the 30 s timeout
            stale = [(t, other) for t, other in lost_cbs if other != no and abs(t - tc) <= TOL]
            ctx.obligations += 1
            if stale:
                ctx.violate("C11.stale-loss-drops-current", "",
                            f"t={tc:.3f}: connection_lost of abandoned connection {stale[0][1]} made the controller close connection {no}, "
                            f"which was the established connection in use")


def _norm(host: str) -> str:
    from ipaddress import ip_address

    try:
        return str(ip_address(host.partition("%")[0]))
    except ValueError:
        return host


def run_plan(plan: dict, ch: Chooser) -> tuple[Ctx, Scenario]:
    sc = Scenario(plan, ch)
    ctx = sc.run()
    return ctx, sc
