"""Discovery world: simulated mDNS (a fake AsyncZeroconf holding a real zeroconf.DNSCache, a browser
stub with a real SignalRegistrationInterface, an AsyncServiceInfo whose async_request is a cache
load) and the BLE advertisement path (adverts are fed to the real BleController._device_detected).

"Advertisement processed" on mDNS = records put in the cache (replacing older records of that
service, as a cache-flush announcement does) and the registered browser handler called; the
library's own 0.5 s resolve-later timer then runs in virtual time.
"""

from __future__ import annotations

import socket
import struct
import types

_installed = False


class BrowserStub:
    types = ["_hap._tcp.local.", "_hap._udp.local."]

    def __init__(self) -> None:
        from zeroconf._services import SignalRegistrationInterface

        self._handlers: list = []
        self.service_state_changed = SignalRegistrationInterface(self._handlers)


class ScannerStub:
    def __init__(self, detection_callback=None, **kw) -> None:
        self.detection_callback = detection_callback
        self.discovered_devices_and_advertisement_data: dict = {}
        self.started = False

    async def start(self) -> None:
        self.started = True

    async def stop(self) -> None:
        self.started = False


LOADS: list = []  # every AsyncServiceInfo.load_from_cache call of the run: {"t", "seq", "name", "type", "ok"}
_SEQ = [0]


def next_seq() -> int:
    """one counter orders announcements and cache reads of a run exactly (no ties, unlike virtual time)"""
    _SEQ[0] += 1
    return _SEQ[0]


def reset_observation() -> None:
    LOADS.clear()
    _SEQ[0] = 0


REQUEST_DELAY = [0.0]  # simulated duration of an mDNS query that the cache cannot answer (set per run by the check)


def install() -> None:
    global _installed
    if _installed:
        return
    _installed = True
    import aiohomekit.zeroconf as hz
    from zeroconf.asyncio import AsyncServiceInfo

    class SimServiceInfo(AsyncServiceInfo):
        def load_from_cache(self, zc, now=None):
            # observation point for the checks: WHEN the library reads a service out of the cache, and whether it was complete.
            # This is the third-party boundary every implementation has to cross to process an announcement, whatever debounce,
            # timer or task it uses to get there.
            ok = super().load_from_cache(zc, now)
            try:
                import asyncio

                t = asyncio.get_running_loop().time()
            except RuntimeError:
                t = None
            LOADS.append({"t": t, "seq": next_seq(), "name": self.name, "type": self.type, "ok": bool(ok)})
            return ok

        async def async_request(self, zc, timeout, question_type=None, addr=None, port=5353):
            # the real one answers from the cache when it can and otherwise sends questions and WAITS (up to `timeout` ms) for the
            # records to arrive; REQUEST_DELAY[0] is how long that takes in this run (0 = the call never suspends)
            if self.load_from_cache(zc):
                return True
            if REQUEST_DELAY[0] > 0:
                import asyncio

                await asyncio.sleep(min(REQUEST_DELAY[0], timeout / 1000.0))
            return self.load_from_cache(zc)

    hz.AsyncServiceBrowser = BrowserStub
    hz.AsyncServiceInfo = SimServiceInfo
    import aiohomekit.controller.ble.controller as bc

    bc.BleakScanner = ScannerStub


class SimMDNS:
    """stands in for an AsyncZeroconf instance"""

    def __init__(self) -> None:
        from zeroconf import DNSCache

        install()
        self.browser = BrowserStub()
        self.zeroconf = types.SimpleNamespace(cache=DNSCache(), listeners=[self.browser])
        self.records: dict[str, list] = {}  # service name -> records currently announced

    async def async_wait_for_start(self):  # pragma: no cover
        return None

    def announce(self, hap_type: str, name: str, addresses: list[str], port: int, txt, state: str = "added") -> None:
        """txt: dict (key->value bytes/None) or raw bytes"""
        from zeroconf import ServiceStateChange
        from zeroconf.asyncio import AsyncServiceInfo

        full = f"{name}.{hap_type}"
        packed = []
        for a in addresses:
            packed.append(socket.inet_pton(socket.AF_INET6 if ":" in a else socket.AF_INET, a))
        tag = "tcp" if "_tcp" in hap_type else "udp"
        info = AsyncServiceInfo(hap_type, full, addresses=packed, port=port, properties=txt, server=f"{name}-{tag}.local.".replace(" ", "-"))
        cache = self.zeroconf.cache
        old = self.records.pop(full, None)
        if old:
            self._remove(old)
        recs = [*info.dns_addresses(), info.dns_pointer(), info.dns_service(), info.dns_text()]
        cache.async_add_records(recs)
        self.records[full] = recs
        self.fire(hap_type, full, ServiceStateChange.Added if state == "added" else ServiceStateChange.Updated)

    def goodbye(self, hap_type: str, name: str) -> None:
        from zeroconf import ServiceStateChange

        full = f"{name}.{hap_type}"
        old = self.records.pop(full, None)
        if old:
            self._remove(old)
        self.fire(hap_type, full, ServiceStateChange.Removed)

    def _remove(self, recs) -> None:
        cache = self.zeroconf.cache
        for rec in recs:
            if cache.async_get_unique(rec) is not None or cache.get(rec) is not None:
                try:
                    cache.async_remove_records([rec])
                except KeyError:
                    pass

    def fire(self, hap_type: str, full: str, change) -> None:
        for h in list(self.browser._handlers):
            h(zeroconf=self.zeroconf, service_type=hap_type, name=full, state_change=change)


# ---- BLE advertisements ---------------------------------------------------------------------
def regular_advert(device_id: str, sf: int = 0, category: int = 5, gsn: int = 1, cn: int = 1, cv: int = 2, setup_hash: bytes | None = b"\x01\x02\x03\x04",
                   length_byte: int | None = None) -> bytes:
    """manufacturer data (company 0x004C) of a HAP-BLE regular advertisement:
    06 | len | sf | device id(6) | category LE16 | GSN LE16 | c# | cv [| setup hash(4)]"""
    did = bytes.fromhex(device_id.replace(":", ""))
    body = bytes([sf]) + did + struct.pack("<HHBB", category, gsn, cn, cv) + (setup_hash or b"")
    lb = length_byte if length_byte is not None else (0x20 | (len(body) & 0x1F))
    return bytes([0x06, lb]) + body


def ble_objects(address: str, name: str | None, mfr: dict[int, bytes], rssi: int = -60):
    from bleak.backends.device import BLEDevice
    from bleak.backends.scanner import AdvertisementData

    dev = BLEDevice(address, name, {})
    adv = AdvertisementData(local_name=name, manufacturer_data=mfr, service_data={}, service_uuids=[], tx_power=None, rssi=rssi, platform_data=())
    return dev, adv
