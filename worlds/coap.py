"""CoAP world: the name `Context` in aiohomekit.controller.coap.connection is bound to SimContext.

aiocoap itself (retransmission, deduplication, token matching) is a STUB: the simulation presents
what aiocoap presents to an application - a response Message, a NetworkError, or silence until the
caller's own timeout - and lets the on-path fault injector choose the PAYLOAD (replay of an earlier
genuine payload, future counter, corruption).  Real aiocoap.Message objects are used.  Events are
delivered by calling the real EventResource.render_put.
"""

from __future__ import annotations

import asyncio
import os

from aiocoap import Message
from aiocoap.error import NetworkError
from aiocoap.numbers.codes import Code

from refimpl.coap_accessory import CoapAccessory

CUR = {"world": None}


def errno_name(e: int) -> str:
    import errno as _e

    return _e.errorcode.get(e, str(e))
_installed = False


class _Req:
    def __init__(self, fut):
        self.response = fut


class SimContext:
    def __init__(self, world: "CoapWorld", root=None) -> None:
        self.world = world
        self.root = root
        self.closed = False
        world.contexts.append(self)

    @classmethod
    async def create_client_context(cls, *a, **k):
        return cls(CUR["world"])

    @classmethod
    async def create_server_context(cls, root, bind=None, *a, **k):
        return cls(CUR["world"], root)

    def request(self, msg: Message, handle_blockwise: bool = True, **kw) -> _Req:
        """aiocoap.Context.request(request_message, handle_blockwise=True).  With handle_blockwise=False the requester neither
        splits a large request nor COLLECTS a reply the server sends block-wise: the caller gets the first block only (a reply
        above the server's maximum_payload_size of 1124 bytes comes as 1024-byte blocks, option Block2 more=True)"""
        loop = asyncio.get_running_loop()
        fut = loop.create_future()
        w = self.world
        if self.closed:
            fut.set_exception(NetworkError("context shut down"))
            return _Req(fut)
        path = "/".join(msg.opt.uri_path)
        w.ctx.event("coap_req", path, len(msg.payload))
        outcome = w.decide(path, msg)
        if outcome["kind"] == "lost":
            w.ctx.probe("coap_reply_lost")
            return _Req(fut)  # silence: the caller's own timeout decides
        delay = outcome.get("delay", w.latency())
        box = {}

        def arrive():  # the request reaches the accessory (half way); a caller that gave up before this never reached it
            if fut.done() and not outcome.get("arrive_anyway"):
                w.ctx.probe("coap_request_never_arrived")
                return
            if outcome["kind"] == "neterr" and not outcome.get("delivered"):
                return
            # (a network error may concern a retransmission while the first copy was delivered and processed: 'delivered')
            box["reply"] = w.serve(path, bytes(msg.payload), outcome)

        def deliver():
            if fut.done():
                if "reply" in box:
                    w.ctx.probe("coap_reply_to_abandoned_request")
                return
            if outcome["kind"] == "neterr":
                # aiocoap reports ICMP errors from the socket error queue per remote: every pending request to it fails with
                # NetworkError(str(oserror)) whose __cause__ is the OSError
                err = outcome.get("errno")
                exc = NetworkError("simulated network error" if not err else os.strerror(err))
                if err:
                    exc.__cause__ = OSError(err, os.strerror(err))
                w.ctx.probe("coap_neterr_" + (errno_name(err) if err else "plain") + ("_delivered" if outcome.get("delivered") else ""))
                fut.set_exception(exc)
                return
            if outcome["kind"] == "reply_lost" and path == "":
                w.ctx.probe("coap_reply_lost_after_processing")
                return
            code, payload = box["reply"]
            if not handle_blockwise and len(payload) > 1124:
                w.ctx.probe("coap_blockwise_reply_not_collected")
                payload = payload[:1024]
            elif len(payload) > 1124:
                w.ctx.probe("coap_reply_sent_blockwise")
            fut.set_result(Message(code=code, payload=payload))

        loop.call_later(delay / 2, arrive)
        loop.call_later(delay, deliver)
        return _Req(fut)

    async def shutdown(self) -> None:
        self.closed = True
        self.world.ctx.event("coap_shutdown")


class CoapWorld:
    def __init__(self, ctx, loop, acc: CoapAccessory, profile: dict | None = None) -> None:
        self.ctx = ctx
        self.loop = loop
        self.acc = acc
        self.profile = profile or {}
        self.contexts: list[SimContext] = []
        self.genuine: list[bytes] = []  # sealed genuine responses handed out so far (for replay injection)
        self.fault_queue: list[dict] = []  # consumed by successive secure requests
        self.delivered: list[dict] = []
        install()
        CUR["world"] = self

    def latency(self) -> float:
        lo, hi = self.profile.get("lat", (0.01, 0.01))
        return lo if hi <= lo else self.ctx.ch.uniform("coap.lat", lo, hi, lo)

    def decide(self, path: str, msg) -> dict:
        if path == "" and self.fault_queue:
            return self.fault_queue.pop(0)
        return {"kind": "ok"}

    def serve(self, path: str, payload: bytes, outcome: dict):
        acc = self.acc
        if path in ("1", "2"):
            r = acc.post_pair_verify(payload) if path == "2" else acc.post_pair_setup(payload)
            if isinstance(r, tuple):
                # the accessory answers a failed pairing step under a CoAP error code (4.01, 4.00, 5.00 ...): aiocoap does not raise
                # on those, the requester gets an ordinary Message with the payload intact
                self.ctx.probe("coap_pairing_reply_under_error_code")
                return getattr(Code, r[0]), r[1]
            return Code.CHANGED, r
        if path == "0":
            return Code.CHANGED, b""
        if outcome["kind"] == "future":  # the accessory's send counter is ahead (replies the controller never saw)
            acc.send_ctr += outcome.get("skip", 1)
            self.ctx.probe("coap_future_counter_reply")
        kind, sealed = acc.post_secure(payload)
        if kind == "notfound":
            return Code.NOT_FOUND, b""
        k = outcome["kind"]
        out = sealed
        if k == "replay" and self.genuine:
            out = self.genuine[outcome.get("which", -1) % len(self.genuine)]
            self.ctx.probe("coap_replayed_reply")
        elif k == "corrupt":
            ba_ = bytearray(sealed)
            ba_[outcome.get("pos", 0) % len(ba_)] ^= 1 << (outcome.get("bit", 0) % 8)
            out = bytes(ba_)
            self.ctx.probe("coap_corrupt_reply")
        elif k == "notfound":
            return Code.NOT_FOUND, b""
        self.genuine.append(sealed)
        self.delivered.append({"kind": k, "payload": out, "genuine": out == sealed, "ctr": acc.sent[-1]["ctr"]})
        return Code.CHANGED, out

    def event_resource(self):
        for c in reversed(self.contexts):
            if c.root is not None and not c.closed:
                return c.root._resources.get(())
        return None


def install() -> None:
    global _installed
    if _installed:
        return
    _installed = True
    import aiohomekit.controller.coap.connection as cc
    from simkit import seams

    seams.install_coap()
    cc.Context = SimContext


def standard_accessory(ch, extra_services=None, n_chars: int = 8, aid_count: int = 1):
    """identity + pairing record + a CoAP accessory with info, pairing and one test service per aid"""
    from refimpl import coap_accessory as ca
    from refimpl import crypto as RC
    from refimpl import hap

    ident = hap.AccessoryIdentity("aa:bb:cc:dd:ee:c0", ch.nbytes("coap.ltsk", 32))
    ios = ch.nbytes("coap.ios", 32)
    accessories = []
    fmts = ["bool", "uint8", "int", "float", "string", "uint16", "uint32", "data"]
    for aid in range(1, aid_count + 1):
        chars = []
        for k in range(n_chars):
            fmt = fmts[k % len(fmts)]
            perms = ("pr", "pw", "ev") if k % 4 != 3 else (("pw",) if k % 8 == 3 else ("pr", "ev"))
            val = {"bool": bool(k % 2), "uint8": 10 + k, "int": 100 + k, "float": 0.5 + k, "string": f"s{k}", "uint16": 300 + k, "uint32": 70000 + k, "data": "0a0b"}[fmt]
            chars.append(ca.CChar(f"000000{0xA0 + k:02X}", 0x100 * aid + 50 + k, fmt, perms, val))
        svcs = [ca.CService("0000003E", 0x100 * aid + 1, [ca.CChar("00000023", 0x100 * aid + 2, "string", ("pr",), f"Acc{aid}")])]
        if aid == 1:
            svcs.append(ca.CService("00000055", 32, [ca.CChar("00000050", 36, "data", ("pr", "pw"), b"")]))
        svcs.append(ca.CService("00000043", 0x100 * aid + 48, chars))
        svcs += extra_services or []
        accessories.append((aid, svcs))
    acc = ca.CoapAccessory(ident, {"ios-1": RC.ed_pub(ios)}, accessories, eph=lambda w, n: ch.nbytes("coap.acc." + w, n))
    rec = {"AccessoryPairingID": ident.pairing_id, "AccessoryLTPK": ident.ltpk.hex(), "iOSPairingId": "ios-1", "iOSDeviceLTSK": ios.hex(),
           "iOSDeviceLTPK": RC.ed_pub(ios).hex(), "Connection": "CoAP", "AccessoryIP": "fd00::c0", "AccessoryPort": 5683}
    return acc, rec


def make_pairing(rec):
    from aiohomekit.characteristic_cache import CharacteristicCacheMemory
    from aiohomekit.controller.coap.controller import CoAPController
    from worlds.ip import FakeZeroconf

    c = CoAPController(char_cache=CharacteristicCacheMemory(), zeroconf_instance=FakeZeroconf())
    return c.load_pairing("alias", dict(rec))
