"""BLE world: SimGATT.

  SimBackend   a bleak *backend* (BaseBleakClient subclass) handed to the real AIOHomeKitBleakClient via
               bleak's `backend=` argument, so bleak's client front-end and GATT object model,
               ble/bleak.py, ble/client.py, ble/pairing.py, pdu.py, key.py, values.py, structs.py and
               the bleak_retry_connector retry decorators all run for real.
  sim_establish_connection   replaces only ble/connection.py::establish_connection (a 20-line wrapper
               around bleak-retry-connector's BlueZ/D-Bus logic); injects connect failures as the
               exception classes that wrapper maps to.
  LinkClient   a duck-typed `client` for the function-level API of ble/client.py (ble_request,
               _write_pdu, _read_pdu, char_write, _pairing_char_write): only what those functions use,
               so that fragment sizes below the 97-byte floor of the real client can be exercised.

GATT operations complete after seeded virtual delays, may fail (BleakError) and the link may drop at
any operation (disconnected callback), as decided by the Chooser.
"""

from __future__ import annotations

import asyncio
from typing import Any

from bleak.backends.characteristic import BleakGATTCharacteristic
from bleak.backends.client import BaseBleakClient
from bleak.backends.descriptor import BleakGATTDescriptor
from bleak.backends.device import BLEDevice
from bleak.backends.service import BleakGATTService, BleakGATTServiceCollection
from bleak.exc import BleakError

from refimpl import ble_accessory as ba

LINKS: dict[str, "SimLink"] = {}


class SimLink:
    """the radio link + the accessory behind one BLE address"""

    def __init__(self, ctx, address: str, acc: ba.BleAccessory, profile: dict | None = None) -> None:
        self.ctx = ctx
        self.address = address
        self.acc = acc
        self.profile = profile or {}
        self.mtu = self.profile.get("mtu", 247)
        self.max_wwr = self.profile.get("max_wwr", 0)  # max_write_without_response_size reported per characteristic
        self.backend: SimBackend | None = None
        self.ops = 0
        self.writes: list[tuple[int, bytes]] = []  # (handle, data as written by the controller)
        self.reads: list[tuple[int, bytes]] = []
        self.connects = 0
        self.drops = 0
        self.client_disconnects = 0
        self.connect_fail_queue: list[str] = []
        self.drop_at_op: int | None = self.profile.get("drop_at_op")
        LINKS[address] = self

    async def delay(self, what: str) -> None:
        lo, hi = self.profile.get("lat", (0.005, 0.005))
        d = lo if hi <= lo else self.ctx.ch.uniform(f"ble.lat:{what}", lo, hi, lo)
        await asyncio.sleep(d)

    def op(self, what: str) -> None:
        """count an operation; maybe drop the link or fail the operation"""
        self.ops += 1
        self.ctx.event("gatt", what)
        b = self.backend
        if b is None or not b._connected:
            raise BleakError("Not connected")
        if self.drop_at_op is not None and self.ops == self.drop_at_op:
            self.drop("planned")
            raise BleakError("disconnected")
        p = self.profile.get("drop_p", 0)
        if p and self.ctx.ch.chance("ble.drop", p):
            self.drop("random")
            raise BleakError("disconnected")
        p = self.profile.get("fail_p", 0)
        if p and self.ctx.ch.chance("ble.op_fail", p):
            self.ctx.probe("ble_op_failed")
            raise BleakError("operation failed (simulated)")

    def drop(self, why: str) -> None:
        b = self.backend
        if b is None or not b._connected:
            return
        self.drops += 1
        self.ctx.event("ble_drop", why)
        self.ctx.probe("ble_link_dropped")
        b._connected = False
        self.acc.on_disconnect()
        if b._disconnected_callback is not None:
            b._disconnected_callback()


class SimBackend(BaseBleakClient):
    def __init__(self, address_or_ble_device, **kwargs: Any) -> None:
        super().__init__(address_or_ble_device, **kwargs)
        self._link = LINKS[self.address]
        self._connected = False
        self._mtu_size = self._link.mtu
        self._notify: dict[int, Any] = {}

    @property
    def name(self) -> str:
        return "sim"

    @property
    def mtu_size(self) -> int:
        return self._link.mtu

    @property
    def is_connected(self) -> bool:
        return self._connected

    async def connect(self, pair: bool = False, **kwargs: Any) -> None:
        link = self._link
        await link.delay("connect")
        link.connects += 1
        link.ctx.event("ble_connect")
        link.backend = self
        acc = link.acc
        coll = BleakGATTServiceCollection()
        for s in acc.services:
            svc = BleakGATTService(s, s.iid_handle - 0, s.uuid.lower())
            coll.add_service(svc)
            wwr = link.max_wwr
            ch = BleakGATTCharacteristic(s, s.iid_handle, ba.SVC_INSTANCE_ID.lower(), ["read"], lambda wwr=wwr: wwr or 20, svc)
            coll.add_characteristic(ch)
            for c in s.chars:
                props = ["read", "write"] + (["write-without-response"] if link.profile.get("wwr_prop") else []) + (["indicate"] if "ev" in c.perms else [])
                bc = BleakGATTCharacteristic(c, c.handle, c.uuid.lower(), props, lambda wwr=wwr: wwr or 20, svc)
                coll.add_characteristic(bc)
                coll.add_descriptor(BleakGATTDescriptor(c, c.desc_handle, ba.CHAR_IID_DESCRIPTOR.lower(), bc))
        self.services = coll
        self._connected = True
        acc.on_connect()

    async def disconnect(self) -> None:
        link = self._link
        if getattr(link, "dead_disconnect", False) and self._connected:
            # the backend died (BlueZ: the D-Bus socket is gone): the link is down, disconnect() raises, and the disconnected
            # callback is never delivered
            self._connected = False
            link.acc.on_disconnect()
            link.ctx.probe("ble_disconnect_raised_dead_backend")
            link.ctx.event("ble_client_disconnect_dead_backend")
            raise EOFError("D-Bus connection lost (simulated)")
        if self._connected:
            self._connected = False
            link.client_disconnects += 1
            link.ctx.event("ble_client_disconnect")
            link.acc.on_disconnect()
        await asyncio.sleep(0)

    async def pair(self, *a: Any, **k: Any) -> None:
        return None

    async def unpair(self) -> None:
        return None

    async def clear_cache(self) -> bool:
        return True

    async def read_gatt_char(self, characteristic: BleakGATTCharacteristic, **kwargs: Any) -> bytearray:
        link = self._link
        link.op("read")
        await link.delay("read")
        if not self._connected:
            raise BleakError("Not connected")
        h = characteristic.handle
        acc = link.acc
        if h in acc.svc_iid_handles:
            data = acc.read_service_iid(h)
        else:
            data = acc.gatt_read(h)
        link.reads.append((h, bytes(data)))
        return bytearray(data)

    async def read_gatt_descriptor(self, descriptor: BleakGATTDescriptor, **kwargs: Any) -> bytearray:
        link = self._link
        link.op("read_desc")
        await link.delay("read")
        return bytearray(link.acc.read_descriptor(descriptor.handle))

    async def write_gatt_char(self, characteristic: BleakGATTCharacteristic, data, response: bool) -> None:
        link = self._link
        link.op("write")
        await link.delay("write")
        if not self._connected:
            raise BleakError("Not connected")
        data = bytes(data)
        link.writes.append((characteristic.handle, data))
        try:
            link.acc.gatt_write(characteristic.handle, data)
        except ValueError as e:
            # a conformant accessory answers a malformed / unauthenticated PDU by dropping the link
            link.ctx.probe("accessory_rejected_pdu")
            link.drop("accessory-rejected:" + str(e))
            raise BleakError("disconnected by accessory")
        if link.profile.get("ack_lost_at_write") is not None and len(link.writes) == link.profile["ack_lost_at_write"]:
            # the ATT write reached the accessory but its acknowledgement was lost: bleak raises while the link stays up
            # (BlueZ: org.freedesktop.DBus.Error.NoReply; proxies: write-response timeout)
            link.ctx.probe("ble_write_ack_lost")
            link.ctx.event("ble_ack_lost", len(link.writes))
            raise BleakError("write acknowledgement lost (simulated); link still up")

    async def write_gatt_descriptor(self, descriptor, data) -> None:
        return None

    async def start_notify(self, characteristic: BleakGATTCharacteristic, callback, **kwargs: Any) -> None:
        link = self._link
        link.op("start_notify")
        await link.delay("write")
        self._notify[characteristic.handle] = callback

    async def stop_notify(self, characteristic: BleakGATTCharacteristic) -> None:
        self._notify.pop(characteristic.handle, None)


_installed = False


def install() -> None:
    """bind ble.pairing.establish_connection (and the discovery module's) to the simulated one"""
    global _installed
    if _installed:
        return
    _installed = True
    import aiohomekit.controller.ble.discovery as bd
    import aiohomekit.controller.ble.pairing as bp

    bp.establish_connection = sim_establish_connection
    if hasattr(bd, "establish_connection"):
        bd.establish_connection = sim_establish_connection


async def sim_establish_connection(device: BLEDevice, name: str, disconnected_callback, max_attempts=None, use_services_cache=False, ble_device_callback=None):
    from aiohomekit.controller.ble.bleak import AIOHomeKitBleakClient
    from aiohomekit.exceptions import AccessoryDisconnectedError, AccessoryNotFoundError

    link = LINKS.get(device.address)
    if link is None:
        raise AccessoryNotFoundError(f"{device.address}: not found (simulated)")
    fail = link.connect_fail_queue.pop(0) if link.connect_fail_queue else None
    p = link.profile.get("connect_fail_p", 0)
    if fail is None and p and link.ctx.ch.chance("ble.connect_fail", p):
        fail = link.ctx.ch.choice("ble.connect_fail.kind", ["aborted", "notfound", "error"])
    await link.delay("connect")
    if fail == "notfound":
        raise AccessoryNotFoundError("device disappeared (simulated)")
    if fail:
        raise AccessoryDisconnectedError(f"connect failed: {fail} (simulated)")
    client = AIOHomeKitBleakClient(device, disconnected_callback=disconnected_callback, backend=SimBackend)
    try:
        await client.connect()
    except BleakError as ex:
        raise AccessoryDisconnectedError(ex) from ex
    return client


class _Handle:
    """minimal stand-in for a BleakGATTCharacteristic in the function-level API"""

    def __init__(self, c: ba.GChar, properties=("read", "write")) -> None:
        self.handle = c.handle
        self.uuid = c.uuid.lower()
        self.properties = list(properties)
        self.max_write_without_response_size = 0
        self.obj = c


class LinkClient:
    """duck-typed client for ble_request / _write_pdu / _read_pdu / char_write / _pairing_char_write"""

    def __init__(self, ctx, acc: ba.BleAccessory, fragment_size: int) -> None:
        self.ctx = ctx
        self.acc = acc
        self.fragment_size = fragment_size
        self.address = "00:00:00:00:00:01"
        self.writes: list[tuple[int, bytes]] = []
        self.reads: list[tuple[int, bytes]] = []
        self.is_connected = True
        acc.on_connect()
        acc.frag_size = fragment_size

    def determine_fragment_size(self, additional_overhead_size: int, handle) -> int:
        return self.fragment_size - additional_overhead_size

    def handle_for(self, iid: int) -> _Handle:
        return _Handle(self.acc.find_char(iid))

    async def get_characteristic(self, service_uuid: str, characteristic_uuid: str, iid: int | None = None):
        for s in self.acc.services:
            if s.uuid.lower() == service_uuid.lower():
                for c in s.chars:
                    if c.uuid.lower() == characteristic_uuid.lower() and (iid is None or c.iid == iid):
                        return _Handle(c)
        raise BleakError("characteristic missing")

    async def get_characteristic_iid(self, char) -> int:
        return char.obj.iid

    async def write_gatt_char(self, handle, data, response) -> None:
        await asyncio.sleep(0.001)
        data = bytes(data)
        self.writes.append((handle.handle, data))
        try:
            self.acc.gatt_write(handle.handle, data)
        except ValueError as e:
            self.is_connected = False
            raise BleakError(f"disconnected by accessory: {e}")
        if getattr(self, "ack_lost_at", None) is not None and len(self.writes) == self.ack_lost_at:
            # delivered, but the acknowledgement is lost while the link stays up
            self.ctx.probe("ble_write_ack_lost")
            raise BleakError("write acknowledgement lost (simulated); link still up")

    async def read_gatt_char(self, handle) -> bytearray:
        await asyncio.sleep(0.001)
        data = self.acc.gatt_read(handle.handle)
        self.reads.append((handle.handle, bytes(data)))
        return bytearray(data)
