#!/bin/bash
# Large-sample determinism proof for every check: N seeds (default 2000; fewer for the checks whose single run is a whole
# grid) executed twice - 16 workers in seed order, and 5 workers in reversed order in a fresh interpreter under another
# PYTHONHASHSEED - and every event-log digest compared.  Usage: tools/detsweep.sh [N] [base-seed]
cd "$(dirname "$0")/.." || exit 2
N=${1:-2000}
SEED=${2:-7}
rc=0
for c in C01 C02 C03 C04 C05 C06 C07 C08 C09 C10 C11 C12 C13 C15 C16 C17 C18 C19 C20; do
  n=$N
  case $c in C05|C07) n=$((N / 20));; esac
  timeout 3000 ./check.py $c --detsweep $n --seed $SEED 2>&1 | tail -1
  [ "${PIPESTATUS[0]}" = 0 ] || rc=2
done
exit $rc
