#!/usr/bin/env python3
"""Intake + evaluation of an independently written breaking change (seeded change).
  tools/seeded.py intake <wt_dir> <PROP> <name>   confirm (suite passes with change; demo fails with / passes without), copy to /verif/seeded/<name>/
  tools/seeded.py eval <name> [--runs N]          apply to /repo, run the property's quick check, undo; record in meta.json
  tools/seeded.py intake-keep <wt_dir> <PROP> <name>   a property-PRESERVING change (false-alarm probe): suite passes with it, demo passes with AND
                                                  without it; copied to /verif/preserving/<name>/
  tools/seeded.py eval-keep <name> [CHECKS...]    apply, run the quick check of the property (and of the other given checks), undo; every one must stay clean
"""
import json, os, shutil, subprocess, sys, time
os.environ["VERIF_SCRATCH_EVIDENCE"] = "1"  # sensitivity runs never touch the committed evidence files
VERIF = os.path.dirname(os.path.dirname(os.path.abspath(__file__)))

def sh(cmd, cwd=None, env=None, timeout=1800):
    return subprocess.run(cmd, shell=True, cwd=cwd, env=env, capture_output=True, text=True, timeout=timeout)

def intake(wt, prop, name, keep=False):
    env = dict(os.environ, PYTHONPATH=wt)
    demo = [f for f in os.listdir(wt) if f.startswith("demo_") and f.endswith(".py")][0]
    assert sh("git diff --quiet -- aiohomekit", cwd=wt).returncode != 0, "change not applied in worktree"
    sh("git diff -- aiohomekit > patch.diff", cwd=wt)
    r_suite = sh("/venv/bin/python -m pytest -q -p no:cacheprovider --timeout=900 2>&1 | tail -3", cwd=wt, env=env)
    suite_ok = " passed" in r_suite.stdout and "failed" not in r_suite.stdout
    run_demo = f"/venv/bin/python -m pytest -q -p no:cacheprovider {demo}" if "def test_" in open(os.path.join(wt, demo)).read() else f"/venv/bin/python {demo}"
    r_with = sh(run_demo, cwd=wt, env=env)
    sh("git checkout -- aiohomekit", cwd=wt)
    r_without = sh(run_demo, cwd=wt, env=env)
    sh("git apply patch.diff", cwd=wt)
    def failed(r): return r.returncode != 0
    ok = suite_ok and (failed(r_with) != keep) and not failed(r_without)
    print("suite with change:", r_suite.stdout.strip().splitlines()[-1] if r_suite.stdout.strip() else r_suite.stderr[-200:])
    print("demo with change  :", "FAILS" if failed(r_with) else "passes", "|", r_with.stdout.strip().splitlines()[-1:] )
    print("demo without      :", "FAILS" if failed(r_without) else "passes", "|", r_without.stdout.strip().splitlines()[-1:])
    if not ok:
        print("NOT CONFIRMED"); return 1
    dst = os.path.join(VERIF, "preserving" if keep else "seeded", name)
    os.makedirs(dst, exist_ok=True)
    for f in ("patch.diff", demo, "notes.md"):
        if os.path.exists(os.path.join(wt, f)): shutil.copy(os.path.join(wt, f), dst)
    meta = {"property": prop, "name": name, "demo": demo, "confirmed": {"suite_with_change": r_suite.stdout.strip().splitlines()[-1], "demo_with_change": "passes" if keep else "fails", "demo_without_change": "passes",
            "how": f"in scratch worktree {wt} with PYTHONPATH set to it: pytest suite; demo with the change; git checkout -- aiohomekit; demo; git apply patch.diff"},
            "needs_to_manifest": "see notes.md", "repo_base": sh("git rev-parse --short HEAD", cwd=wt).stdout.strip()}
    if keep:
        meta["expect"] = "clean"
        meta.pop("needs_to_manifest", None)
    json.dump(meta, open(os.path.join(dst, "meta.json"), "w"), indent=1)
    print("CONFIRMED ->", dst); return 0


def evaluate_keep(name, checks):
    """a property-preserving change: every given check must stay clean (exit 0, no VIOLATION line) with it applied"""
    dst = os.path.join(VERIF, "preserving", name)
    meta = json.load(open(os.path.join(dst, "meta.json")))
    if sh("git -C /repo status --porcelain --untracked-files=no").stdout.strip():
        print("refusing: /repo dirty"); return 2
    a = sh(f"git -C /repo apply {dst}/patch.diff")
    if a.returncode != 0:
        print("patch does not apply:", a.stderr); return 2
    try:
        for c in [meta["property"]] + [c for c in checks if c != meta["property"]]:
            t = time.time()
            cmd = f"./check.py {c} --tier quick"
            r = sh(cmd, cwd=VERIF, timeout=3000)
            clean = r.returncode == 0 and "VIOLATION" not in r.stdout
            sigs = [l.split(":")[1].strip() for l in r.stdout.splitlines() if l.startswith("violation:")]
            meta.setdefault("evaluations", []).append({"cmd": cmd, "exit": r.returncode, "clean": clean, "signatures": sigs[:6], "wall_s": round(time.time() - t, 1),
                                                       "verif_commit": sh("git rev-parse --short HEAD", cwd=VERIF).stdout.strip()})
            print(name, c, "stayed clean" if clean else ("HARNESS-ERROR" if r.returncode == 2 else "FALSE ALARM"), sigs[:4], f"{time.time()-t:.0f}s")
            if r.returncode == 2: print(r.stdout[-1500:], r.stderr[-800:])
        json.dump(meta, open(os.path.join(dst, "meta.json"), "w"), indent=1)
    finally:
        sh("git -C /repo checkout -- .")
    return 0

def evaluate(name, runs=None, tier="quick"):
    dst = os.path.join(VERIF, "seeded", name)
    meta = json.load(open(os.path.join(dst, "meta.json")))
    if sh("git -C /repo status --porcelain --untracked-files=no").stdout.strip():
        print("refusing: /repo dirty"); return 2
    a = sh(f"git -C /repo apply {dst}/patch.diff")
    if a.returncode != 0:
        print("patch does not apply:", a.stderr); return 2
    try:
        t = time.time()
        cmd = f"./check.py {meta['property']} --tier {tier}" + (f" --runs {runs}" if runs else "")
        r = sh(cmd, cwd=VERIF, timeout=3000)
        caught = r.returncode == 1 and f"VIOLATION property={meta['property']}" in r.stdout
        sigs = [l.split(":")[1].strip() for l in r.stdout.splitlines() if l.startswith("violation:")]
        meta.setdefault("evaluations", []).append({"cmd": cmd, "exit": r.returncode, "caught": caught, "signatures": sigs[:6], "wall_s": round(time.time() - t, 1),
                                                   "verif_commit": sh("git rev-parse --short HEAD", cwd=VERIF).stdout.strip()})
        meta["caught"] = caught
        json.dump(meta, open(os.path.join(dst, "meta.json"), "w"), indent=1)
        print(name, meta["property"], "CAUGHT" if caught else ("HARNESS-ERROR" if r.returncode == 2 else "MISSED"), sigs[:4], f"{time.time()-t:.0f}s")
        if r.returncode == 2: print(r.stdout[-1500:], r.stderr[-800:])
    finally:
        sh("git -C /repo checkout -- .")
    return 0

if __name__ == "__main__":
    if sys.argv[1] == "intake": sys.exit(intake(sys.argv[2], sys.argv[3], sys.argv[4]))
    if sys.argv[1] == "intake-keep": sys.exit(intake(sys.argv[2], sys.argv[3], sys.argv[4], keep=True))
    if sys.argv[1] == "eval-keep": sys.exit(evaluate_keep(sys.argv[2], sys.argv[3:]))
    runs = int(sys.argv[sys.argv.index("--runs") + 1]) if "--runs" in sys.argv else None
    sys.exit(evaluate(sys.argv[2], runs))
