#!/venv/bin/python
"""Directed search (reference implementation only) for SRP exchanges whose S, M1 or M2 start with
0x00; the hits are committed as refimpl/srp_vectors.json and used by C02 as directed entropy."""
import json, os, sys, hashlib
from concurrent.futures import ProcessPoolExecutor
sys.path.insert(0, os.path.dirname(os.path.dirname(os.path.abspath(__file__))))
from refimpl import crypto as C

def sweep(w):
    code = "%03d-%02d-%03d" % (w % 1000, (w * 7) % 100, (w * 13) % 1000)
    salt = hashlib.sha256(b"salt%d" % w).digest()[:16]
    b = int.from_bytes(hashlib.sha256(b"b%d" % w).digest(), "big")
    acc = C.SrpAccessory(code, salt, b)
    hits = []
    for i in range(1200):
        a_bytes = hashlib.sha256(b"a%d-%d" % (w, i)).digest()[:16]
        A, S, K, M1, M2 = C.srp_client_values(code, salt, int.from_bytes(a_bytes, "big"), acc.B_bytes)
        kinds = [k for k, v in (("S0", S), ("M1_0", M1), ("M2_0", M2), ("K0", K)) if v[0] == 0]
        for k in kinds:
            hits.append({"kind": k, "code": code, "salt": salt.hex(), "b": hex(b), "a": a_bytes.hex()})
    return hits

if __name__ == "__main__":
    out = []
    with ProcessPoolExecutor(12) as ex:
        for h in ex.map(sweep, range(24)):
            out.extend(h)
    json.dump(out, open(os.path.join(os.path.dirname(os.path.dirname(os.path.abspath(__file__))), "refimpl", "srp_vectors.json"), "w"), indent=0)
    from collections import Counter
    print(Counter(h["kind"] for h in out))
