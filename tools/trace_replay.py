#!/venv/bin/python
"""debug helper: run a replay file on the IP scenario engine and dump the event log and call records"""
import json, sys, logging
sys.path.insert(0, "/verif")
logging.disable(logging.CRITICAL)
from simkit.core import Chooser
from worlds.ip_scenario import run_plan
rep = json.load(open(sys.argv[1]))
ch = Chooser(rep["seed"], rep.get("decisions") or {}, replay=rep.get("mode") != "seed")
ctx, sc = run_plan(rep["plan"], ch)
for e in ctx.log:
    print(e)
for c in sc.calls:
    print({k: v for k, v in c.items() if k not in ("task", "exc_obj", "result")}, repr(c.get("exc_obj")))
for a in sc.attempts:
    print(a)
for v in ctx.violations:
    print("V", v)
