#!/usr/bin/env python3
"""Sensitivity self-test: apply each small realistic mutant to /repo's working tree, run the quick
check of the property it should break, expect a VIOLATION, revert.  Usage:
   tools/mutants.py [--only C08] [--runs N]
Never leaves /repo modified (git checkout of the touched file in a finally block)."""
import argparse, json, os, subprocess, sys, time
os.environ["VERIF_SCRATCH_EVIDENCE"] = "1"  # sensitivity runs never touch the committed evidence files
HERE = os.path.dirname(os.path.dirname(os.path.abspath(__file__)))
sys.path.insert(0, HERE)
from mutants.table import MUTANTS

def main():
    ap = argparse.ArgumentParser()
    ap.add_argument("--only")
    ap.add_argument("--id")
    ap.add_argument("--runs", type=int, default=None)
    a = ap.parse_args()
    if subprocess.run(["git", "-C", "/repo", "status", "--porcelain", "--untracked-files=no"], capture_output=True, text=True).stdout.strip():
        print("refusing: /repo has uncommitted changes"); return 2
    results = []
    for m in MUTANTS:
        if a.only and m["prop"] not in a.only.split(","): continue
        if a.id and m["id"] != a.id: continue
        path = os.path.join("/repo", m["file"])
        src = open(path).read()
        if src.count(m["old"]) != 1:
            results.append((m["id"], m["prop"], "STALE (pattern count %d)" % src.count(m["old"]))); continue
        try:
            src = src.replace(m["old"], m["new"])
            for o, n in m.get("also", ()):  # further edits of the same file (e.g. an import the change needs)
                assert src.count(o) == 1, (m["id"], o)
                src = src.replace(o, n)
            open(path, "w").write(src)
            t = time.time()
            cmd = [os.path.join(HERE, "check.py"), m["prop"], "--tier", "quick"]
            runs = a.runs or m.get("runs")
            if runs: cmd += ["--runs", str(runs)]
            try:
                out = subprocess.run(cmd + ["--wall", "90"], capture_output=True, text=True, cwd=HERE, timeout=400)
            except subprocess.TimeoutExpired:
                results.append((m["id"], m["prop"], "TIMEOUT")); continue
            if m.get("expect") == "clean":  # a change that keeps the property: the check must stay quiet (false-alarm probe)
                ok = out.returncode == 0 and "VIOLATION" not in out.stdout
                results.append((m["id"], m["prop"], ("caught (stayed clean as expected)" if ok else "FALSE-ALARM " + str([l for l in out.stdout.splitlines() if l.startswith("violation:")][:2])) + f" {time.time()-t:.0f}s"))
                continue
            caught = out.returncode == 1 and "VIOLATION property=%s" % m["prop"] in out.stdout
            sigs = [l.split(":")[1].strip() for l in out.stdout.splitlines() if l.startswith("violation:")]
            status = "caught" if caught else ("HARNESS-ERROR" if out.returncode == 2 else "MISSED")
            results.append((m["id"], m["prop"], f"{status} {sigs[:3]} {time.time()-t:.0f}s"))
            if status == "HARNESS-ERROR": print(out.stdout[-1500:], out.stderr[-1500:])
        finally:
            subprocess.run(["git", "-C", "/repo", "checkout", "--", m["file"]])
    for r in results: print("%-28s %-4s %s" % r)
    return 0 if all("caught" in r[2] for r in results) else 1
if __name__ == "__main__":
    sys.exit(main())
