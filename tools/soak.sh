#!/bin/bash
# Soak: every check's quick tier under many base seeds; prints only runs that are not clean.
# Skips (and re-runs) a check when /repo's tracked files were modified during the run (mutant / seeded-change evaluation in progress).
cd "$(dirname "$0")/.."
first=${1:-100}; last=${2:-140}; shift 2
checks=${@:-C01 C02 C03 C04 C05 C06 C07 C08 C09 C10 C11 C12 C13 C15 C16 C17 C18 C19 C20}
for seed in $(seq $first $last); do
  for c in $checks; do
    while [ -n "$(git -C /repo status --porcelain --untracked-files=no)" ]; do sleep 20; done
    out=$(./check.py $c --tier quick --seed $seed 2>&1); rc=$?
    if [ -n "$(git -C /repo status --porcelain --untracked-files=no)" ]; then echo "seed $seed $c: repo was modified during the run, ignoring"; continue; fi
    if [ $rc -ne 0 ] || echo "$out" | grep -q "VIOLATION\|HARNESS"; then echo "=== seed $seed $c rc=$rc"; echo "$out" | grep -v "^VIOLATION" | cut -c1-700 | tail -8; mkdir -p soak_replays; cp replays/$c-* soak_replays/ 2>/dev/null; else echo "seed $seed $c clean: $(echo "$out" | tail -1 | cut -c1-120)"; fi
  done
done
