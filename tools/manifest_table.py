NOTES = ("All checks are seeded searches over simulated executions of the real aiohomekit code (DESIGN.md): one integer (VERIF_SEED) decides every "
         "workload operation, delay, segmentation, peer misbehaviour, fault and crash point; failures are minimised (ddmin over plan operations and "
         "fault decisions) and written as replay files that ./check.py <id> --replay <file> re-executes. ./check.py <id> --selftest runs the "
         "determinism self-test of a check (every seed twice in-process plus once in a fresh interpreter under another PYTHONHASHSEED). "
         "tools/mutants.py runs the sensitivity self-test (small realistic mutants per property). known_findings.json lists the genuine defects "
         "found; all of them were repaired by 'fix:' commits in /repo, so no KNOWN-FINDING line is expected on the current tree.")
NB = "not built yet in this session (planned, see DESIGN.md section 7); no claim is made"
SIM = "deterministic simulation with fault injection: "
CHECKS = {
 "C01": dict(level="exploration", design_ref="DESIGN.md section 7 C01",
   text="Seeded search over pair-verify exchanges between the real get_session_keys (bare generator with IP-/BLE-style decoding, session resume, and the full SecureHomeKitConnection on simulated TCP) and an independent reference accessory that applies one seeded forgery/corruption per run; an independent verifier judges the bytes actually delivered. Keys produced => delivered reply authentic; honest => accessory accepts the controller proof and both ends hold identical keys.",
   note="Reference accessory and verifier written from the HAP spec (trusted base; calibrated on the honest path). Absent State field tolerated like the library documents. BLE/CoAP transports reuse the same generator; their drivers are not part of this check. Sampling, not proof.",
   technique=SIM + "Byzantine-peer / in-flight corruption search against an independent reference verifier"),
 "C02": dict(level="exploration", design_ref="DESIGN.md section 7 C02",
   text="Seeded search over SRP exchanges between the real pair-setup generators (SrpClient) and an independent RFC 5054/HomeKit SRP server, with a directed entropy source (os.urandom seam) that produces secrets whose A, B, S, K, M1 or M2 start with 0x00 and zero/leading-zero salts, plus in-flight single-bit corruption of the accessory proof and wrong setup codes.",
   note="Narrow simulation target: entropy seam and corruption injector only, no scheduling dimension. Width rules inside M1/K follow HomeKit fixed-width padding; cannot be cross-checked against Apple's implementation offline.",
   technique=SIM + "two-party exchange with directed entropy against an independent SRP-6a reference"),
 "C03": dict(level="exploration", design_ref="DESIGN.md section 7 C03",
   text="Seeded search over full pair-setup exchanges (bare generators with IP-/BLE-style decoding, and IpDiscovery over simulated TCP) against an independent reference accessory applying one seeded mutation per run to M2/M4/M6 (bit/byte corruption, removal, resizing, truncation, forged proof, wrong key/nonce/signing key/identifier/labels); independent verification of the delivered M4/M6; returned record checked for self-consistency and used for a pair-verify.",
   note="BLE and CoAP discovery drivers are not part of this check (their transports are simulated in other checks). Reference from the HAP spec. Sampling.",
   technique=SIM + "Byzantine-peer search with an independent reference accessory and verifier"),
 "C04": dict(level="fault_enumeration", design_ref="DESIGN.md section 7 C04",
   text="Enumerates a grid of ~5000 cells (protocol step x error code x state variant x other fields kept/dropped x error-before-state x driver) and executes every cell on the real code through a real driver (bare generators with/without the expected-types filter; SecureHomeKitConnection, IpDiscovery, IpPairing.add_pairing/remove_pairing on simulated TCP); checks the exception class and that nothing is ever returned as success.",
   note="Add/remove pairing and transport drivers are enumerated on IP; BLE/CoAP management calls are not in the grid. The quick tier visits each cell once (measured as distinct abstract states).",
   technique=SIM + "fault enumeration: scripted accessory error replies through the real protocol drivers"),
 "C05": dict(level="exploration", design_ref="DESIGN.md section 7 C05",
   text="Two seeded modes: (a) real secure sessions over simulated TCP with boundary-sized requests/responses/events, accessory frame-size policies, segmentation styles and single-bit corruption of a length prefix, ciphertext or tag; (b) the real SecureHomeKitProtocol fed a reference-encrypted stream under every single cut and structurally chosen/random double and multi cuts. Reference AEAD deframer decodes every transport call; delivered plaintext must equal what the accessory encoded; corrupted frames must never be delivered and must end the session.",
   note="Reference framing (LE16 length as AAD, 4 zero bytes + LE64 counter) from the HAP spec. Sampling; exhaustive only over single cuts of each generated stream.",
   technique=SIM + "delivery-schedule (segmentation) and corruption search with a reference AEAD deframer"),
 "C07": dict(level="exploration", design_ref="DESIGN.md section 7 C07",
   text="Seeded search over reference-emitted message sequences x segmentations (every single cut, structurally chosen and random double cuts, random multi-cuts) fed to the real feed loop and parser; compares completed messages with what was emitted.",
   note="Well-formed = what the reference emitter produces (CRLF, Content-Length or lower-case chunked without extensions/trailers). Sampling, not proof.",
   technique=SIM + "delivery-schedule (segmentation) search against a reference emitter"),
 "C08": dict(level="exploration", design_ref="DESIGN.md section 7 C08",
   text="Seeded search over interleavings of 1-4 concurrent callers, tagged responses (whole/in pieces, delayed around the 30 s timer), EVENT bursts, cancellations, own timeouts, peer FIN/RST, silence and unsolicited responses on the real IpPairing over simulated TCP in virtual time; checks attribution, exception classes, abandonment of out-of-sync connections and prompt completion; disturb -> heal -> judge.",
   note="SimTransport models CPython's selector transport (DESIGN appendix B). Unsolicited responses are injected only while idle (otherwise indistinguishable in HTTP/1.1). Sampling.",
   technique=SIM + "virtual-time asyncio loop, simulated TCP, schedule and fault search with history oracles"),
 "C09": dict(level="exploration", design_ref="DESIGN.md section 7 C09",
   text="Always-on byte-level monitor at the transport seam (write/writelines) in a workload that varies connected host form (IPv4, IPv6, scoped IPv6), methods, id sets and nested JSON payloads through the public pairing API; each transport call must carry exactly one request (after verify: decoded by the reference deframer) in the canonical form.",
   note="Canonical form as stated in the property/README; JSON compactness = no whitespace outside string literals (number formatting is not judged).",
   technique=SIM + "I/O-seam monitor with strict grammar over a seeded API workload"),
 "C10": dict(level="exploration", design_ref="DESIGN.md section 7 C10",
   text="Seeded search over per-attempt outcomes (connect refused/black-holed/slow, every pair-verify failure kind, drops after verify) x 1-4 advertised addresses x zeroconf updates, callers, close/shutdown at arbitrary virtual times with horizons up to 2 h; oracles for keeps-trying, back-off growth/cap, no busy loop, single connector, waiting callers, exclusions, after-close; disturb -> heal -> judge (bounded liveness: reconnected within 140 s after faults stop (in-flight attempt <= 70 s + one 60 s back-off)).",
   note="Attempt boundaries observed by wrapping the connection object's _connect_once from the harness. Back-off lower bound asserted 0.5 s. Narrow reading of 'no address excluded forever' (DESIGN section 7 C10).",
   technique=SIM + "virtual-time fault-sequence search with history oracles and bounded liveness"),
 "C11": dict(level="exploration", design_ref="DESIGN.md section 7 C11",
   text="Same world as C10, biased to failing verifies, slow-drain closes and peer closes of old connections; after every step in which all runnable callbacks have run, at most the connection in use may be open on the controller side; close()/shutdown() never raise and leave none open; loss of an abandoned connection never closes the one in use.",
   note="A connection counts as closed by the controller from transport.close()/socket.close(). Sampling.",
   technique=SIM + "idle-point invariants over simulated TCP connection sets"),
 "C12": dict(level="exploration", design_ref="DESIGN.md section 7 C12",
   text="Seeded histories of subscribe/unsubscribe, listeners (raising, added/removed, self-removing), reconnect cycles, event bursts/splits, empty and non-JSON events; accessory-side per-session registration sets and per-listener logs checked against a reference model.",
   note="Polling fallback recognised on the wire; subscription requests are never answered with 4xx in this profile. Model lower bound for re-subscription: calls completed before the attempt began.",
   technique=SIM + "history search with reference model of subscriptions and exactly-once event delivery"),
 "C13": dict(level="exploration", design_ref="DESIGN.md section 7 C13",
   text="Seeded request sets against a reference IP accessory that draws per-characteristic status vectors, 204/207 variants, request-wide statuses with partial lists and garbled entries; results and listener notifications are checked against the accessory's ground truth (which writes it applied, which status it sent).",
   note="Claimed for the IP transport only in this revision (CoAP/BLE result mapping not yet simulated here). Entries with ids but no status are outside the stated quantifier.",
   technique=SIM + "peer-side fault injection with ground-truth oracle"),
 "C18": dict(level="exploration", design_ref="DESIGN.md section 7 C18",
   text="Seeded histories of encrypted BLE advertisements (genuine next/skipped, replays, older, beyond the window, wrong key, wrong advertising id, single-bit flips, inner-counter mismatch, truncation, duplicates) fed to the real BleController detection callback for a pairing restored from the cache; an independent executable model of the acceptance rule (own ChaCha20/Poly1305) evaluated on the delivered bytes decides what listeners and description.state_num must show after every advert.",
   note="State numbers compared as integers without wrap-around (what the code implements). String-format characteristics not broadcast. The model evaluates the same candidate order on the actual bytes, so truncated-tag collisions cannot false-alarm.",
   technique=SIM + "history search against an executable reference model of the acceptance rule"),
 "C19": dict(level="exploration", design_ref="DESIGN.md section 7 C19",
   text="Seeded schedules of waiters (time-outs, cancellations), valid and malformed advertisements and goodbyes on the real IpController/CoAPController (simulated mDNS with a real DNSCache), BleController (advert callback) and the aggregate Controller in virtual time, with no pairing / pairing with / without cached state loaded; reference waiter model incl. the 0.5 s resolve timer and tie handling; reference parse of descriptions; no callback may raise (incl. loop callbacks).",
   note="Finder ids lower-case. Truncated/random adverts only required not to raise nor wake other ids. zeroconf network engine stubbed (records placed in a real DNSCache, handler fired).",
   technique=SIM + "virtual-time schedule search with a reference waiter model"),
 "C20": dict(level="fault_enumeration", design_ref="DESIGN.md section 7 C20",
   text="Enumerates crash points of the pairing-file save and of the cache write-through (every file operation x stratified byte prefixes) on a simulated file system, restarts on the surviving files, and checks durability (old or new, never neither), round-trip of every named field and tolerance of torn/garbled caches.",
   note="Process-crash model (buffered bytes may be lost or written as any prefix; rename atomic); no power-loss reordering.",
   technique=SIM + "crash-point enumeration on a simulated file system with restart"),
}
NOT_APPLICABLE = {
 "C14": "pure function of (value, metadata): no schedule, clock, fault, peer or history for a simulator to vary (DESIGN.md section 7 C14); a property-based test is the right tool, not this technique",
}
for _p in ["C01","C02","C03","C04","C05","C06","C08","C09","C10","C11","C12","C13","C15","C16","C17","C18","C19","C20"]:
    if _p not in CHECKS:
        NOT_APPLICABLE[_p] = NB
