NOTES = ("All checks are seeded searches over simulated executions of the real aiohomekit code (see DESIGN.md). "
         "./check.py <id> --selftest runs the determinism self-test for a check.")
NB = "not built yet in this session (planned, see DESIGN.md section 7); no claim is made"
CHECKS = {
 "C07": dict(level="exploration", design_ref="DESIGN.md section 7 C07",
   text="Seeded search over reference-emitted message sequences x segmentations (every single cut, structurally chosen and random double cuts, random multi-cuts) fed to the real feed loop and parser; compares completed messages with what was emitted.",
   note="Well-formed = what the reference emitter produces (CRLF, Content-Length or lower-case chunked without extensions/trailers). Sampling, not proof.",
   technique="deterministic simulation: delivery-schedule (segmentation) search against a reference emitter"),
}
NOT_APPLICABLE = {
 "C14": "pure function of (value, metadata): no schedule, clock, fault, peer or history for a simulator to vary (DESIGN.md section 7 C14); a property-based test is the right tool, not this technique",
}
for _p in ["C01","C02","C03","C04","C05","C06","C08","C09","C10","C11","C12","C13","C15","C16","C17","C18","C19","C20"]:
    if _p not in CHECKS:
        NOT_APPLICABLE[_p] = NB
