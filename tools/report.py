#!/usr/bin/env python3
"""Regenerates the generated blocks of DESIGN.md (between <!-- BEGIN GENERATED:x --> and
<!-- END GENERATED:x -->) from known_findings.json, seeded/*/meta.json, mutants/results.txt and
evidence/*.json.   Usage: tools/report.py"""
import glob, json, os, re, subprocess
HERE = os.path.dirname(os.path.dirname(os.path.abspath(__file__)))


def findings_block():
    d = json.load(open(os.path.join(HERE, "known_findings.json")))
    subj = {}
    for l in subprocess.run(["git", "-C", "/repo", "log", "--format=%h %s"], capture_output=True, text=True).stdout.splitlines():
        h, s = l.split(" ", 1)
        subj[h] = s
    out = ["| property | status | commit / signature | what |", "|---|---|---|---|"]
    for e in d["findings"]:
        what = e["what"]
        what = re.sub(r"^fixed: property=\w+ \w+ ", "", what)
        key = f"`{e['commit']}` {subj.get(e['commit'], '')}" if e["status"] == "fixed" else "`" + (e.get("signature") or e.get("signature_re")).replace("|", "\\|") + "`"
        out.append(f"| {e['property']} | {e['status']} | {key} | {what.replace('|', '/')} |")
    return "\n".join(out)


def seeded_block():
    out = ["| seeded change | property | needs to manifest (author's notes, abridged) | check result | signatures |", "|---|---|---|---|---|"]
    for mpath in sorted(glob.glob(os.path.join(HERE, "seeded", "*", "meta.json"))):
        m = json.load(open(mpath))
        ev = (m.get("evaluations") or [{}])[-1]
        needs = m.get("needs_short") or ""
        res = "caught" if ev.get("caught") else ("MISSED" if ev else "not evaluated")
        out.append(f"| {m['name']} | {m['property']} | {needs} | {res} by `{ev.get('cmd', '')}` ({ev.get('wall_s', '?')} s) | {', '.join(ev.get('signatures', [])[:3])} |")
    return "\n".join(out)


def preserving_block():
    out = ["| property-preserving change | property | what differs mechanically (abridged) | checks run with it applied | result |", "|---|---|---|---|---|"]
    for mpath in sorted(glob.glob(os.path.join(HERE, "preserving", "*", "meta.json"))):
        m = json.load(open(mpath))
        evs = m.get("evaluations") or []
        last = {}
        for e in evs:
            last[e["cmd"].split()[1]] = e
        res = "; ".join(f"{c}: {'clean' if e.get('clean') else 'ALARM ' + ', '.join(e.get('signatures', [])[:2])}" for c, e in sorted(last.items()))
        out.append(f"| {m['name']} | {m['property']} | {m.get('differs_short', '')} | {', '.join(sorted(last))} | {res or 'not evaluated'} |")
    return "\n".join(out)


def mutants_block():
    p = os.path.join(HERE, "mutants", "results.txt")
    if not os.path.exists(p):
        return "(run tools/mutants.py > mutants/results.txt)"
    rows = [l.rstrip() for l in open(p) if re.match(r"^c\d\d", l)]
    out = ["| mutant | property | result |", "|---|---|---|"]
    for l in rows:
        parts = l.split(None, 2)
        out.append(f"| {parts[0]} | {parts[1]} | {parts[2]} |")
    caught = sum(1 for l in rows if " caught " in l)
    out.append(f"\n{caught} of {len(rows)} caught.")
    return "\n".join(out)


def evidence_block():
    out = ["| id | level | quick runs | distinct non-trivial | obligations | simulated s | abstract states | runs/h | faults fired (kinds) | known hits | wall s |", "|---|---|---|---|---|---|---|---|---|---|---|"]
    for p in sorted(glob.glob(os.path.join(HERE, "evidence", "C*.json"))):
        e = json.load(open(p))
        c = e["coverage"]
        out.append(f"| {e['property_id']} | {e['level']} | {c['evaluations']} | {c['distinct_nontrivial']} | {c.get('oracle_obligations_evaluated', '')} | {c.get('simulated_seconds', 0):.0f} | "
                   f"{c.get('distinct_abstract_states', '')} | {c.get('runs_per_hour', '')} | {sum(c.get('faults_fired', {}).values())} ({len(c.get('faults_fired', {}))}) | {sum(c.get('known_findings_hit', {}).values())} | {e.get('wall_s', '')} |")
    return "\n".join(out)


BLOCKS = {"findings": findings_block, "seeded": seeded_block, "preserving": preserving_block, "mutants": mutants_block, "evidence": evidence_block}


def main():
    path = os.path.join(HERE, "DESIGN.md")
    s = open(path).read()
    for name, fn in BLOCKS.items():
        b, e = f"<!-- BEGIN GENERATED:{name} -->", f"<!-- END GENERATED:{name} -->"
        if b in s and e in s:
            i, j = s.index(b) + len(b), s.index(e)
            s = s[:i] + "\n" + fn() + "\n" + s[j:]
    open(path, "w").write(s)
    print("DESIGN.md blocks regenerated")


if __name__ == "__main__":
    main()
