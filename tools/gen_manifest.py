#!/usr/bin/env python3
"""Regenerates /verif/MANIFEST.json from the table below (keeps it schema-valid at all times)."""
import json, os, sys
HERE = os.path.dirname(os.path.dirname(os.path.abspath(__file__)))
sys.path.insert(0, HERE)
from tools.manifest_table import CHECKS, NOT_APPLICABLE, NOTES

checks = []
for pid, c in sorted(CHECKS.items()):
    checks.append({
        "property_id": pid,
        "quick_cmd": f"timeout 900 ./check.py {pid} --tier quick",
        "thorough_cmd": f"timeout 7200 ./check.py {pid} --tier thorough",
        "evidence_file": f"/verif/evidence/{pid}.json",
        "replay_cmd_template": f"./check.py {pid} --replay {{path}}",
        "engine": "simkit",
        "level_claimed": {"category": c["level"], "text": c["text"], "design_ref": c["design_ref"]},
        "level_note": c["note"],
        "technique": c["technique"],
    })
m = {
    "version": 1,
    "setup_cmd": "/venv/bin/python -c \"import aiohomekit, os; assert os.path.abspath(aiohomekit.__file__).startswith('/repo/'), aiohomekit.__file__\"",
    "hooks": {
        "guard": "AIOHOMEKIT_VERIF",
        "enable": "none needed: every seam is reached by binding module attributes / constructor arguments from the harness; /repo carries no hook code",
        "baseline_off_cmd": "cd /repo && /venv/bin/python -m pytest -ra -q -p no:cacheprovider --timeout=900 --continue-on-collection-errors",
        "source_commits": [],
        "add_only": True,
    },
    "engines": [{
        "name": "simkit",
        "path": "/verif/simkit",
        "serves_properties": sorted(CHECKS),
        "kind_free_text": "deterministic simulation with fault injection: virtual-time asyncio loop (BaseEventLoop subclass), simulated TCP/GATT/CoAP/mDNS/file-system seams, independent reference peers (refimpl), one-integer Chooser, seeded search over many short runs, ddmin minimisation, replay files",
    }],
    "checks": checks,
    "notes": NOTES,
    "not_applicable": [{"property_id": k, "reason": v} for k, v in sorted(NOT_APPLICABLE.items())],
}
json.dump(m, open(os.path.join(HERE, "MANIFEST.json"), "w"), indent=1)
print("wrote MANIFEST.json with", len(checks), "checks;", len(NOT_APPLICABLE), "not applicable")
try:
    import jsonschema
    jsonschema.validate(m, json.load(open("/root/.vp/MANIFEST.schema.json")))
    print("schema ok")
except ImportError:
    print("jsonschema not importable here; validate with python3-vt")
