"""Stand-alone demonstration of the open C04 finding on the real code (no simulator):
/venv/bin/python findings/open-C04.foreign-item-first.demo.py   -> prints what the library does, exits 1 while the defect exists.

An accessory answers pair-verify M3 with [Identifier (not expected at this step), State=M4, Error=Authentication].
The IP / CoAP transports decode the reply with the step's `expected` list; the decoder stops at the first unexpected
item, the generator sees an empty reply and returns session keys."""
import sys

from aiohomekit.protocol import handle_state_step
from aiohomekit.protocol.tlv import TLV

reply = TLV.encode_list([(TLV.kTLVType_Identifier, b"unexpected"), (TLV.kTLVType_State, TLV.M4), (TLV.kTLVType_Error, TLV.kTLVError_Authentication)])
seen = dict(TLV.decode_bytes(reply, expected=[TLV.kTLVType_State, TLV.kTLVType_Error]))  # what post_tlv hands to get_session_keys at M4
print("decoded with the M4 expectations:", seen)
try:
    handle_state_step(seen, TLV.M4)
except Exception as e:  # noqa: BLE001
    print("error reply rejected:", repr(e))
    sys.exit(0)
print("DEFECT: the error reply passes handle_state_step; get_session_keys goes on to return session keys")
sys.exit(1)
